#!/bin/bash
# usage: runall.sh [tier] [seed] -- runs every check, prints one line each
cd "$(dirname "$0")/.."
tier=${1:-quick}; seed=${2:-1}
for p in C01 C02 C03 C04 C05 C06 C07 C08 C09 C10 C11 C12 C13 C14 C15 C16 C17 C18 C19 C20; do
  s=$(date +%s)
  out=$(./check $p --tier $tier --seed $seed 2>&1); rc=$?
  e=$(( $(date +%s) - s ))
  echo "$p rc=$rc ${e}s $(echo "$out" | grep -E 'VIOLATION|INCONCL|held on' | head -2 | cut -c1-160 | tr '\n' ' ')"
done
