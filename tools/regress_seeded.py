#!/usr/bin/env python3
"""regress_seeded.py [-j N] [ids...] -- re-runs, for every change under seeded/, the quick check(s) that
its meta.json says caught it, against a scratch worktree of /repo with the change applied (never
/repo itself), several at a time; prints the changes the current harness no longer reports."""
import json, glob, os, subprocess, sys, re, shutil
from concurrent.futures import ThreadPoolExecutor
ENV = dict(os.environ, GOFLAGS="-mod=mod", GOPROXY="off", GOSUMDB="off", GOTOOLCHAIN="local")
def sh(cmd, cwd=None, timeout=3600):
    p = subprocess.run(cmd, shell=True, cwd=cwd, env=ENV, stdout=subprocess.PIPE, stderr=subprocess.STDOUT, text=True, timeout=timeout)
    return p.returncode, p.stdout
def one(meta):
    sid = meta["id"]; checks = meta.get("caught_by") or []
    if not checks: return sid, None, "not caught when recorded"
    wt = "/tmp/reg-" + sid
    sh("git -C /repo worktree remove --force %s" % wt)
    rc, o = sh("git -C /repo worktree add -q --detach %s HEAD" % wt)
    if rc: return sid, False, "worktree: " + o[-200:]
    try:
        rc, o = sh("git apply /verif/seeded/%s/patch.diff" % sid, cwd=wt)
        if rc: return sid, False, "patch does not apply: " + o[-200:]
        last = ""
        for attempt in (1, 2):
            for c in checks:
                rc, o = sh("./check %s --tier quick --no-evidence --seed %d --repo %s" % (c, attempt, wt), cwd="/verif")
                last = "%s seed %d exit %d" % (c, attempt, rc)
                for v in re.findall(r"replay=(/verif/replays/\S+)", o):
                    try: os.remove(v)
                    except OSError: pass
                if rc == 1: return sid, True, last
        return sid, False, last
    finally:
        sh("git -C /repo worktree remove --force %s" % wt)
        for f in glob.glob("/verif/.build/*-%s*" % __import__("hashlib").sha256(os.path.realpath(wt).encode()).hexdigest()[:10]):
            os.remove(f)
if __name__ == "__main__":
    args = sys.argv[1:]; j = 5
    if args and args[0] == "-j": j = int(args[1]); args = args[2:]
    metas = [json.load(open(f)) for f in sorted(glob.glob("/verif/seeded/*/meta.json"))]
    if args: metas = [m for m in metas if m["id"] in args]
    bad = []
    with ThreadPoolExecutor(j) as ex:
        for sid, ok, note in ex.map(one, metas):
            print(sid, "caught" if ok else ("-" if ok is None else "MISSED"), note, flush=True)
            if ok is False: bad.append(sid)
    print("no longer reported:", bad)
