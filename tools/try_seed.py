#!/usr/bin/env python3
"""try_seed.py <outdir-of-subagent> <seed-id> <property> [other properties...]
Confirms a sub-agent's change in a scratch worktree (suite green with it, demo fails with it and
passes without it), then applies it to /repo, runs the quick checks of the given properties, and
undoes it. Writes /verif/seeded/<seed-id>/{patch.diff,<demo>,meta.json}."""
import json, os, shutil, subprocess, sys, time, glob, re
ENV = dict(os.environ, GOFLAGS="-mod=mod", GOPROXY="off", GOSUMDB="off", GOTOOLCHAIN="local")
def sh(cmd, cwd=None, timeout=1800):
    p = subprocess.run(cmd, shell=True, cwd=cwd, env=ENV, stdout=subprocess.PIPE, stderr=subprocess.STDOUT, text=True, timeout=timeout)
    return p.returncode, p.stdout
out, sid, props = sys.argv[1], sys.argv[2], sys.argv[3:]
patch = os.path.join(out, "patch.diff")
demos = [f for f in glob.glob(os.path.join(out, "*_test.go"))]
assert os.path.exists(patch) and demos, "missing patch or demo"
meta = {"id": sid, "breaks": props[0], "ran": []}
# 1. confirm in a scratch worktree (skipped when an earlier run of this script confirmed this very patch)
prev_meta = os.path.join("/verif/seeded", sid, "meta.json")
prev_patch = os.path.join("/verif/seeded", sid, "patch.diff")
reuse = None
if os.path.exists(prev_meta) and os.path.exists(prev_patch) and open(prev_patch).read() == open(patch).read() and not os.environ.get("RECONFIRM"):
    try:
        pm = json.load(open(prev_meta))
        if pm.get("suite_passes_with_patch") and pm.get("demo_fails_with_patch") and pm.get("demo_passes_without_patch"):
            reuse = pm
    except Exception:
        pass
wt = "/tmp/confirm-" + sid
if reuse:
    for k in ("suite_passes_with_patch", "demo_fails_with_patch", "demo_passes_without_patch", "demo_tags", "demo_tests"):
        if k in reuse: meta[k] = reuse[k]
    meta["confirmed_by_earlier_run"] = True
sh("git -C /repo worktree remove --force %s" % wt)
rc, o = (0, "") if reuse else sh("git -C /repo worktree add -q --detach %s HEAD" % wt); assert rc == 0, o
try:
    if reuse: raise StopIteration
    rc, o = sh("git apply %s" % patch, cwd=wt); assert rc == 0, "patch does not apply: " + o
    rc, o = sh("go build ./... && go test -vet=off -count=1 ./...", cwd=wt)
    meta["suite_passes_with_patch"] = rc == 0
    for d in demos: shutil.copy(d, wt)
    names = []
    for d in demos:
        names += re.findall(r"func (Test\w+)\(", open(d).read())
    run = "^(" + "|".join(names) + ")$"
    tags = os.environ.get("DEMO_TAGS", "")
    if not tags and any("go:build verif" in open(d).read() for d in demos): tags = "verif"
    tagopt = ("-tags %s " % tags) if tags else ""
    meta["demo_tags"] = tags
    rc1, o1 = sh("go test %s-vet=off -count=1 -run '%s' ./..." % (tagopt, run), cwd=wt, timeout=600)
    meta["demo_fails_with_patch"] = rc1 != 0
    sh("git apply -R %s" % patch, cwd=wt)
    rc2, o2 = sh("go test %s-vet=off -count=1 -run '%s' ./..." % (tagopt, run), cwd=wt, timeout=600)
    meta["demo_passes_without_patch"] = rc2 == 0
    meta["demo_tests"] = names
    if not (rc1 != 0 and rc2 == 0):
        meta["demo_output_with"] = o1[-1500:]; meta["demo_output_without"] = o2[-1500:]
except StopIteration:
    pass
finally:
    sh("git -C /repo worktree remove --force %s" % wt)
print("confirmed:", {k: meta.get(k) for k in ("suite_passes_with_patch", "demo_fails_with_patch", "demo_passes_without_patch")})
# 2. run the checks against /repo with the change applied
SCRATCH = os.environ.get("SCRATCH")  # triage mode: run against a scratch worktree (e.g. while a long run uses /repo)
repoopt = ""
if SCRATCH:
    ewt = "/tmp/eval-" + sid
    sh("git -C /repo worktree remove --force %s" % ewt)
    rc, o = sh("git -C /repo worktree add -q --detach %s HEAD" % ewt); assert rc == 0, o
    rc, o = sh("git apply %s" % patch, cwd=ewt); assert rc == 0, o
    repoopt = " --repo " + ewt
    meta["triage_only_scratch_worktree"] = True
else:
    rc, o = sh("git -C /repo status --porcelain"); assert o.strip() == "", "/repo is not clean: " + o
    rc, o = sh("git -C /repo apply %s" % patch); assert rc == 0, o
replays_before = set(os.listdir("/verif/replays")) if os.path.isdir("/verif/replays") else set()
try:
    for p in props:
        t0 = time.time()
        rc, o = sh("./check %s --tier quick --no-evidence%s" % (p, repoopt), cwd="/verif", timeout=3600)
        lines = [l for l in o.splitlines() if re.search(r"^\s+\[|VIOLATION|INCONCL|held on", l)]
        meta["ran"].append({"check": p, "exit": rc, "seconds": round(time.time() - t0, 1), "output": [l[:400] for l in lines[:6]]})
        print(p, "exit", rc, "%.0fs" % (time.time() - t0), (lines[0][:300] if lines else ""))
        for v in re.findall(r"replay=(/verif/replays/\S+)", o):
            keep = os.path.join("/verif/seeded", sid)
            os.makedirs(keep, exist_ok=True)
            if os.path.exists(v): shutil.move(v, os.path.join(keep, "caught-by-" + os.path.basename(v)))
finally:
    # violations reported against the changed tree are not regressions of the real one
    if os.path.isdir("/verif/replays"):
        for f in set(os.listdir("/verif/replays")) - replays_before:
            os.remove(os.path.join("/verif/replays", f))
    if SCRATCH:
        sh("git -C /repo worktree remove --force %s" % ewt)
    else:
        sh("git -C /repo checkout -- .")
        rc, o = sh("git -C /repo status --porcelain"); assert o.strip() == "", "/repo not clean after undo: " + o
dest = os.path.join("/verif/seeded", sid); os.makedirs(dest, exist_ok=True)
shutil.copy(patch, dest)
for d in demos: shutil.copy(d, os.path.join(dest, os.path.basename(d) + ".txt"))  # .txt: not compiled by anything
if os.path.exists(os.path.join(out, "notes.md")): shutil.copy(os.path.join(out, "notes.md"), dest)
meta["caught_by"] = [r["check"] for r in meta["ran"] if r["exit"] == 1]
# keep the hand-written annotations of an earlier (triage) run
old = os.path.join(dest, "meta.json")
if os.path.exists(old):
    try:
        prev = json.load(open(old))
        for k in ("needs_to_manifest", "first_round"):
            if k in prev and k not in meta:
                meta[k] = prev[k]
    except Exception:
        pass
if not SCRATCH:
    meta["what_was_run"] = "tools/try_seed.py: patch applied in a scratch worktree (suite green, demo fails with / passes without it), then applied to /repo with `git -C /repo apply`, `./check <property> --tier quick` run for %s, `git -C /repo checkout -- .` straight afterwards" % ", ".join(props)
for r in meta["ran"]:
    r["output"] = r["output"][:2]
json.dump(meta, open(os.path.join(dest, "meta.json"), "w"), indent=1)
print("caught by:", meta["caught_by"])
