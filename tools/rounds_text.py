import subprocess,re,sys
out=subprocess.run(["python3","tools/design_rounds.py"]+sys.argv[1:],capture_output=True,text=True,cwd="/verif").stdout
parts=re.split(r"^### round (\w)\n",out,flags=re.M)
d={}
for i in range(1,len(parts),2): d[parts[i]]=parts[i+1].strip()
intro={
"h":"**Eighth round (20 changes).** The prompt told the sub-agent to assume a thorough randomized, model-based tester (every entry point, several handles and collections, concurrency, kills, real-time expiry) and to aim for a violation such a tester would plausibly still not reach: a COMBINATION the property's quantification includes but that is unlikely to be combined by chance (a boundary value of a size, count or time, a name or path spelling, an argument equal to the stored state, an option nobody passes).\n{n} of 20 were caught at once, {m} were missed at first:",
"i":"**Ninth round (20 changes).** The prompt listed every earlier change to that property as already caught and asked for something ELSE: read the relevant source files end to end, list the functions earlier changes modified, and put the mistake into a path none of them touched.\n{n} of 20 were caught at once, {m} were missed at first:",
"k":"**Eleventh round (20 changes).** Same instruction; the list of what the tester already does now also named quiet periods, handles closed under calls in flight, results compared again later and imported documents with unusual but valid metadata.\n{n} of 20 were caught at once, {m} were missed at first:",
"j":"**Tenth round (20 changes).** Same instruction as the ninth with the longer list (iterators held open and cancelled contexts named among what the tester already does).\n{n} of 20 were caught at once, {m} were missed at first:",
}
for k in sys.argv[1:]:
    body=d[k]
    m=len(re.findall(r"^\* `S-",body,flags=re.M))
    print(intro[k].format(n=20-m,m=m)); print(); print(body); print()
