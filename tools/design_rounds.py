#!/usr/bin/env python3
"""Regenerates the per-round tables of DESIGN.md 6.1 for the rounds given on the command line
(suffix letters, e.g. `h i`) from seeded/*/meta.json and prints them; used while writing DESIGN.md."""
import json, os, sys
def table(suffix):
    rows = []
    for i in range(1, 21):
        sid = "S-C%02d%s" % (i, suffix)
        f = "/verif/seeded/%s/meta.json" % sid
        if not os.path.exists(f):
            continue
        m = json.load(open(f))
        caught = "; ".join("%s caught in %.1fs" % (r["check"], r["seconds"]) for r in m["ran"] if r["exit"] == 1)
        rows.append("| %s | %s | %s | %s |" % (sid, m["breaks"], m.get("needs_to_manifest", ""), caught))
    return "\n".join(rows)
def missed(suffix):
    out = []
    for i in range(1, 21):
        sid = "S-C%02d%s" % (i, suffix)
        f = "/verif/seeded/%s/meta.json" % sid
        if os.path.exists(f):
            m = json.load(open(f))
            if m.get("first_round"):
                out.append("* `%s`: %s." % (sid, m["first_round"].rstrip(".")))
    return "\n".join(out)
if __name__ == "__main__":
    for suf in sys.argv[1:]:
        print("### round", suf); print(missed(suf)); print(); print("| id | property | what it needs to manifest | quick tier (final) |\n|---|---|---|---|"); print(table(suf)); print()
