#!/bin/bash
# usage: find.sh TEST [SEED] [CHECKS] -- runs one test function single-process, prints the first
# violation compactly and leaves the minimised replay in /tmp/vout.
export GOFLAGS=-mod=mod GOPROXY=off GOSUMDB=off GOTOOLCHAIN=local
cd /verif/harness || exit 2
mkdir -p /tmp/vout; rm -f /tmp/vout/violation-*.json
VERIF_OUT=/tmp/vout VERIF_TMP=/tmp/vout go test -tags verif -count=1 -timeout 900s -run "^$1\$" -rapid.checks=${3:-500} -rapid.seed=${2:-1} -rapid.steps=${4:-30} -rapid.shrinktime=0s -rapid.nofailfile . 2>&1 | grep -av "rapid\] draw" | grep -aE "^\s+\[|^ok|^FAIL|^---|panic|passed" | cut -c1-700 | head -${LINES_MAX:-8}
for f in /tmp/vout/violation-*.json; do
  [ -f "$f" ] || continue
  python3 - "$f" <<'PY'
import json,sys
r=json.load(open(sys.argv[1]))
steps=r.get('steps') or []
print("REPLAY", sys.argv[1], json.dumps(r.get('config')), len(steps), "steps", ("extra: "+json.dumps(r.get('extra'))[:600]) if r.get('extra') else "")
for s in steps:
    d={k:v for k,v in s.items() if v not in (None,{},[],"",False,0) and k not in ('exp','cas')}
    if s.get('cas',{}).get('k'): d['cas']=s['cas']['k']
    if s.get('exp',{}).get('k') not in (None,'','zero'): d['exp']=s['exp']['k']
    if 'body' in d: 
        import base64; d['body']=base64.b64decode(d['body'])[:40].decode('latin1')
    print("   ", json.dumps(d)[:300])
PY
done
