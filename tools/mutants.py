#!/usr/bin/env python3
"""Sensitivity pass: applies each mutant to a scratch worktree of /repo (HEAD), checks that it still
builds and that the existing suite stays green, runs the quick tier of the property's check against
the worktree, and writes /verif/mutants/results.json. Usage: mutants.py [id-prefix ...]"""
import json, os, subprocess, sys, time, re

ENV = dict(os.environ, GOFLAGS="-mod=mod", GOPROXY="off", GOSUMDB="off", GOTOOLCHAIN="local")
WT = "/tmp/wt-mut"

def sh(cmd, cwd=None, timeout=3600):
    p = subprocess.run(cmd, shell=True, cwd=cwd, env=ENV, stdout=subprocess.PIPE, stderr=subprocess.STDOUT, text=True, timeout=timeout)
    return p.returncode, p.stdout

# (id, property, file, old, new [, extra checks])
M = [
 ("C01-append-prepends", "C01", "collection.go", "SET value=value || ?1,", "SET value=?1 || value,"),
 ("C01-incr-ignores-default", "C01", "collection.go", "\t\t\tresult = deflt\n", "\t\t\tresult = amt\n"),
 ("C01-getexpiry-any-collection", "C01", "collection.go", '"SELECT exp FROM documents WHERE collection=? AND key=?", c.id, key)', '"SELECT exp FROM documents WHERE key=?", key)', ["C11"]),
 ("C02-writecas-ge", "C02", "collection.go", "WHERE collection=?3 AND key=?4 AND cas=?5`\n\t\t}\n\t\tresult, err", "WHERE collection=?3 AND key=?4 AND cas>=?5`\n\t\t}\n\t\tresult, err"),
 ("C02-remove-lt", "C02", "collection.go", "} else if ifCas != nil && cas != *ifCas {", "} else if ifCas != nil && cas < *ifCas {"),
 ("C02-withmeta-skip-when-zero", "C02", "collection+xattrs.go", "\t\tif oldCas != prevCas {", "\t\tif oldCas != 0 && oldCas != prevCas {"),
 ("C02-subdoc-uses-caller-cas", "C02", "collection+subdoc.go", "casOut, err = c.WriteCas(key, 0, casOut, fullDoc, 0)", "casOut, err = c.WriteCas(key, 0, ifelse(cas != 0, cas, casOut), fullDoc, 0)", ["C18"]),
 ("C03-update-blind-set", "C03", "collection.go", "\t\tcasOut, err = c.WriteCas(key, exp, cas, raw, opt)\n\t\tif err == nil {", "\t\tif raw != nil && cas != 0 {\n\t\t\terr = c.set(key, exp, nil, raw, true)\n\t\t\t_, casOut, _ = c.GetRaw(key)\n\t\t} else {\n\t\t\tcasOut, err = c.WriteCas(key, exp, cas, raw, opt)\n\t\t}\n\t\tif err == nil {", ["C02"]),
 ("C03-incr-reads-outside-txn", "C03", "collection.go", "\t\t_, err = c.get(txn, key, &result)", "\t\t_, err = c.get(ifelse[queryable](c.bucket.inMemory, txn, c.bucket.sqliteDB), key, &result)"),
 ("C05-remove-keeps-user-xattrs", "C05", "collection.go", "\t\t\t\tif k == \"\" || k[0] != '_' {\n\t\t\t\t\tdelete(xattrs, k)\n\t\t\t\t}\n\t\t\t}\n\t\t\tif len(xattrs) > 0 {", "\t\t\t\tif k == \"\" {\n\t\t\t\t\tdelete(xattrs, k)\n\t\t\t\t}\n\t\t\t}\n\t\t\tif len(xattrs) > 0 {"),
 ("C05-remove-keeps-exp", "C05", "collection.go", "SET value=null, cas=?1, exp=0, isJSON=0, xattrs=?2, tombstone=1, revSeqNo=?3", "SET value=null, cas=?1, isJSON=0, xattrs=?2, tombstone=1, revSeqNo=?3", ["C14", "C08"]),
 ("C05-set-keeps-xattrs-on-resurrection", "C05", "collection.go", "\t\tif !hadValue {\n\t\t\txattrs = nil", "\t\tif !hadValue && revSeqNo == 0 {\n\t\t\txattrs = nil"),
 ("C05-purge-by-flag", "C05", "bucket_api.go", "DELETE FROM documents WHERE value IS NULL", "DELETE FROM documents WHERE tombstone != 0"),
 ("C06-add-overwrites", "C06", "collection.go", "isJSON=?6, revSeqNo=?7\n\t\t\t\t\tWHERE value IS NULL`,", "isJSON=?6, revSeqNo=?7\n\t\t\t\t\tWHERE value IS NULL OR exp > 0`,"),
 ("C06-resurrection-no-exists-check", "C06", "collection+xattrs.go", "\t\t\t} else if opts.insertDoc {\n\t\t\t\treturn nil, sgbucket.ErrKeyExists", "\t\t\t} else if opts.insertDoc && len(e.xattrs) == 0 {\n\t\t\t\treturn nil, sgbucket.ErrKeyExists"),
 ("C07-macro-uses-prev-cas", "C07", "collection+xattrs.go", "\t\te := &event{\n\t\t\tkey: key,\n\t\t\tcas: newCas,\n\t\t}\n\t\tvar wasTombstone int", "\t\te := &event{\n\t\t\tkey: key,\n\t\t}\n\t\tdefer func() { e.cas = newCas }()\n\t\tvar wasTombstone int"),
 ("C07-crc-of-previous-body", "C07", "collection+xattrs.go", "\t\tif val != nil {\n\t\t\tif val.isNil() {\n\t\t\t\t// Delete body:", "\t\tmacroBody := e.value\n\t\t_ = macroBody\n\t\tif val != nil && len(xattrsPayload) == 0 {\n\t\t\tif val.isNil() {\n\t\t\t\t// Delete body:", ),
 ("C07-setxattrs-resets-exp", "C07", "collection+xattrs.go", "casOut, err := c.writeWithXattrs(key, nil, payloadXattrs, nil, nil, writeXattrOptions{}, nil)", "var zeroExp Exp\n\tcasOut, err := c.writeWithXattrs(key, nil, payloadXattrs, nil, &zeroExp, writeXattrOptions{}, nil)", ["C14"]),
 ("C07-removexattrs-ignores-missing", "C07", "collection+xattrs.go", "\t\t\t\t} else {\n\t\t\t\t\treturn nil, fmt.Errorf(\"%s: %w\", xattrKey, sgbucket.ErrPathNotFound)\n\t\t\t\t}", "\t\t\t\t} else if len(xattrs) == 0 {\n\t\t\t\t\treturn nil, fmt.Errorf(\"%s: %w\", xattrKey, sgbucket.ErrPathNotFound)\n\t\t\t\t}"),
 ("C08-writecas-event-no-exp", "C08", "collection.go", "\t\t\tcas:        newCas,\n\t\t\texp:        exp,\n\t\t\tisJSON:     isJSON,\n\t\t\trevSeqNo:   revSeqNo,\n\t\t\txattrs:     xattrs,", "\t\t\tcas:        newCas,\n\t\t\tisJSON:     isJSON,\n\t\t\trevSeqNo:   revSeqNo,\n\t\t\txattrs:     xattrs,", ["C14"]),
 ("C08-keysonly-mutates-shared-event", "C08", "feeds.go", "\t\t\t\tvar eventNoValue sgbucket.FeedEvent = *event // copies the struct\n\t\t\t\teventNoValue.Value = nil\n\t\t\t\tfeed.events.push(&eventNoValue)", "\t\t\t\tevent.Value = nil\n\t\t\t\tfeed.events.push(event)"),
 ("C08-remove-event-no-xattrs", "C08", "collection.go", "\t\t\t\tisDeletion: true,\n\t\t\t\txattrs:     rawXattrs,\n\t\t\t\trevSeqNo:   revSeqNo,", "\t\t\t\tisDeletion: true,\n\t\t\t\trevSeqNo:   revSeqNo,"),
 ("C09-backfill-gt", "C09", "feeds.go", "WHERE collection=?1 AND cas >= ?2 ", "WHERE collection=?1 AND cas > ?2 "),
 ("C09-backfill-unordered", "C09", "feeds.go", "\t\t\t\t\t\tORDER BY cas`,", "\t\t\t\t\t\tORDER BY key`,"),
 ("C09-backfill-isjson-from-value", "C09", "feeds.go", "SELECT key, %s, %s, isJSON, cas,", "SELECT key, %s, %s, value NOT NULL, cas,"),
 ("C11-rawxattrs-any-collection", "C11", "collection+xattrs.go", "`SELECT xattrs FROM documents WHERE collection=?1 AND key=?2`, c.id, key)", "`SELECT xattrs FROM documents WHERE key=?2 ORDER BY collection=?1`, c.id, key)", ["C08"]),
 ("C11-query-cte-any-collection", "C11", "collection+query.go", "FROM documents WHERE collection=%d AND value NOT NULL) %s`,\n\t\tc.id, statement)", "FROM documents WHERE collection>=%d AND value NOT NULL) %s`,\n\t\tc.id, statement)", ["C19"]),
 ("C11-purge-expire-other", "C11", "collection.go", "WHERE collection = ?1 AND exp > 0 AND exp <= ?2`, c.id, exp)", "WHERE collection >= ?1 AND exp > 0 AND exp <= ?2`, c.id, exp)", ["C14"]),
 ("C12-reindex-ge", "C12", "views.go", "(SELECT id FROM documents WHERE collection=?2 AND cas > ?3)`,", "(SELECT id FROM documents WHERE collection=?2 AND cas > ?3 + 1)`,"),
 ("C12-no-id-tiebreak", "C12", "views.go", "sel += `ORDER BY mapped.key, documents.key `", "sel += `ORDER BY mapped.key `"),
 ("C12-limit-before-range", "C12", "views.go", "\tif params.Keys != nil {\n\t\t// Select every row", "\tif params.Limit != nil && params.MinKey != nil {\n\t\tparams.MinKey = nil\n\t}\n\tif params.Keys != nil {\n\t\t// Select every row"),
 ("C13-cached-open-no-refcount", "C13", "bucket_registry.go", "\tr.bucketCount[name] += 1\n\treturn r.buckets[name].copy(), nil", "\tif mode != ReOpenExisting {\n\t\tr.bucketCount[name] += 1\n\t}\n\treturn r.buckets[name].copy(), nil"),
 ("C13-createnew-on-cached-ok", "C13", "bucket_registry.go", "\tif mode == CreateNew {\n\t\treturn nil, fs.ErrExist\n\t}\n\tif url != bucket.url {", "\tif mode == CreateNew && !bucket.inMemory {\n\t\treturn nil, fs.ErrExist\n\t}\n\tif url != bucket.url {"),
 ("C14-rearm-only-later", "C14", "expiry_manager.go", "if currentNextExp == 0 || exp < currentNextExp {", "if currentNextExp == 0 || exp > currentNextExp {"),
 ("C14-set-ignores-preserve", "C14", "collection.go", "\t\tif opts != nil && opts.PreserveExpiry {\n\t\t\texp = oldExp\n\t\t}", "\t\tif opts != nil && opts.PreserveExpiry && exp == 0 {\n\t\t\texp = oldExp\n\t\t}", ["C01"]),
 ("C14-no-schedule-on-reopen", "C14", "bucket.go", "\tif vers != 0 {\n\t\tbucket._scheduleExpiration()\n\t}", "\tif vers != 0 && inMemory {\n\t\tbucket._scheduleExpiration()\n\t}", ["C10"]),
 ("C15-resume-skips-one", "C15", "feeds.go", "\t\t\tstartCas = feed.lastCas + 1", "\t\t\tstartCas = feed.lastCas + 2"),
 ("C15-checkpoint-before-callback", "C15", "feeds.go", "\t\t\tfeed.callback(*event)\n\t\t\tif event.Cas > feed.lastCas {", "\t\t\tif event.Cas > feed.lastCas {\n\t\t\t\tfeed.lastCas = event.Cas\n\t\t\t\tfeed.lastCasChanged = true\n\t\t\t}\n\t\t\tif feed.events.list == nil {\n\t\t\t\tbreak\n\t\t\t}\n\t\t\tfeed.callback(*event)\n\t\t\tif event.Cas > feed.lastCas {"),
 ("C16-drop-leaves-feeds", "C16", "bucket_api.go", "\tfor _, feed := range bucket.collectionFeeds[name] {\n\t\tfeed.close()\n\t}\n\tdelete(bucket.collectionFeeds, name)\n\tdelete(bucket.collections, name)", "\tif c := bucket.collections[name]; c != nil {\n\t\tfor _, feed := range bucket.collectionFeeds[name] {\n\t\t\tfeed.close()\n\t\t}\n\t}\n\tdelete(bucket.collectionFeeds, name)\n\tdelete(bucket.collections, name)", ["C11"]),
 ("C17-remove-no-increment-on-tombstone", "C17", "collection.go", "\t\trevSeqNo++\n\n\t\t// Deleting a doc removes user xattrs", "\t\tif len(rawXattrs) > 0 || cas != 0 {\n\t\t\trevSeqNo++\n\t\t}\n\t\tif len(rawXattrs) == 0 {\n\t\t\trevSeqNo += 0\n\t\t}\n\n\t\t// Deleting a doc removes user xattrs"),
 ("C17-withxattrs-rev-on-tombstone", "C17", "collection+xattrs.go", "\t\te.revSeqNo++\n\t\tif e.value == nil && opts.deleteBody", "\t\tif !(wasTombstone == 1 && val == nil) {\n\t\t\te.revSeqNo++\n\t\t}\n\t\tif e.value == nil && opts.deleteBody"),
 ("C18-insert-checks-root", "C18", "collection+subdoc.go", "\t\tif insert && parent[lastPath] != nil {", "\t\tif insert && fullDoc[lastPath] != nil {"),
 ("C18-delete-from-root", "C18", "collection+subdoc.go", "\t\t} else {\n\t\t\tdelete(parent, lastPath)\n\t\t}\n\n\t\t// Write full doc", "\t\t} else {\n\t\t\tdelete(fullDoc, lastPath)\n\t\t}\n\n\t\t// Write full doc"),
 ("C19-cte-includes-tombstones-with-xattrs", "C19", "collection+query.go", "collection=%d AND value NOT NULL) %s`", "collection=%d AND (value NOT NULL OR xattrs NOT NULL)) %s`"),
 ("C19-prerecord-drops-last", "C19", "collection+query.go", "\t\t\trows = append(rows, row)\n\t\t} else {\n\t\t\tbreak\n\t\t}\n\t}", "\t\t\trows = append(rows, row)\n\t\t} else {\n\t\t\tbreak\n\t\t}\n\t}\n\tif len(rows) > 3 {\n\t\trows = rows[:len(rows)-1]\n\t}"),
 ("C20-runexpiry-ignores-stopped", "C20", "expiry_manager.go", "\tif e.stopped {\n\t\treturn // the timer fired", "\tif e.stopped && e.timer == nil {\n\t\treturn // the timer fired"),
 ("C20-feed-registers-after-shutdown", "C20", "feeds.go", "\t\tif c.bucket.storeClosed.Load() {", "\t\tif c.bucket.storeClosed.Load() && args.Backfill == sgbucket.FeedNoBackfill {", ["C16"]),
 ("C10-ddoc-views-outside-txn", "C10", "designdoc.go", "\t\tddocID, _ := result.LastInsertId()\n\t\tfor name, view := range ddoc.Views {\n\t\t\t_, err := txn.Exec(", "\t\tddocID, _ := result.LastInsertId()\n\t\tfor name, view := range ddoc.Views {\n\t\t\t_, err := c.bucket.sqliteDB.Exec("),
 ("C04-cas-drawn-before-txn", "C04", "collection.go", "\tc.bucket.postMutex.Lock()\n\terr := c.bucket.inTransaction(func(txn *sql.Tx) error {\n\t\tnewCas := uint64(hlc.Now())", "\tnewCas := uint64(hlc.Now())\n\tc.bucket.postMutex.Lock()\n\terr := c.bucket.inTransaction(func(txn *sql.Tx) error {", ["C08"]),
]

def main():
    sel = sys.argv[1:]
    results_path = "/verif/mutants/results.json"
    results = json.load(open(results_path)) if os.path.exists(results_path) else {}
    sh("git -C /repo worktree remove --force " + WT)
    rc, o = sh("git -C /repo worktree add -q --detach %s HEAD" % WT)
    assert rc == 0, o
    try:
        for m in M:
            mid, prop, path, old, new = m[:5]
            extra = m[5] if len(m) > 5 else []
            if sel and not any(mid.startswith(s) for s in sel):
                continue
            sh("git checkout -q -- .", cwd=WT)
            src = open(os.path.join(WT, path)).read()
            if src.count(old) != 1:
                results[mid] = {"property": prop, "status": "does-not-apply", "count": src.count(old)}
                print(mid, "DOES NOT APPLY", src.count(old)); continue
            open(os.path.join(WT, path), "w").write(src.replace(old, new))
            rc, o = sh("go build ./... && go vet . 2>&1 | grep -v '^#' | head -3; go test -vet=off -count=1 ./...", cwd=WT, timeout=600)
            if "FAIL" in o or rc != 0:
                results[mid] = {"property": prop, "status": "invalid (does not build or suite fails)", "detail": o[-400:]}
                print(mid, "INVALID (suite)"); continue
            rc, diff = sh("git diff", cwd=WT)
            r = {"property": prop, "status": "valid", "runs": []}
            for p in [prop] + extra:
                t0 = time.time()
                rc, o = sh("./check %s --tier quick --no-evidence --repo %s" % (p, WT), cwd="/verif")
                lines = [l for l in o.splitlines() if re.search(r"^\s+\[", l)]
                r["runs"].append({"check": p, "exit": rc, "seconds": round(time.time() - t0, 1), "first": (lines[0][:300] if lines else o[-200:])})
                for v in re.findall(r"replay=(/verif/replays/\S+)", o):
                    if os.path.exists(v): os.remove(v)
                print(mid, p, "exit", rc, "%.0fs" % (time.time() - t0), (lines[0][:160] if lines else ""))
            r["killed_by"] = [x["check"] for x in r["runs"] if x["exit"] == 1]
            r["diff"] = diff
            results[mid] = r
            json.dump(results, open(results_path, "w"), indent=1)
    finally:
        sh("git -C /repo worktree remove --force " + WT)
        sh("rm -f /verif/.build/harness-alt*.test")
    json.dump(results, open(results_path, "w"), indent=1)

main()
