#!/usr/bin/env python3
# Validates MANIFEST.json and every evidence file against the schemas (python3-vt has jsonschema).
import json, glob, sys, jsonschema
ok = True
m = json.load(open('/verif/MANIFEST.json'))
jsonschema.validate(m, json.load(open('/root/.vp/MANIFEST.schema.json')))
print("MANIFEST.json valid:", len(m["checks"]), "checks")
es = json.load(open('/root/.vp/EVIDENCE.schema.json'))
for c in m["checks"]:
    try:
        jsonschema.validate(json.load(open(c["evidence_file"])), es)
        print(c["property_id"], "evidence valid")
    except Exception as e:
        ok = False
        print(c["property_id"], "EVIDENCE INVALID:", str(e)[:300])
sys.exit(0 if ok else 1)
