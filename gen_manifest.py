#!/usr/bin/env python3
"""Generates MANIFEST.json from checks_config.py and manifest_text.py (kept in sync by construction)."""
import json, os, subprocess, sys
sys.path.insert(0, os.path.dirname(os.path.abspath(__file__)))
from checks_config import CHECKS
from manifest_text import TEXT, NOT_APPLICABLE, NOTES

def repo_commits():
    out = subprocess.run(["git", "-C", "/repo", "log", "--format=%H %s"], stdout=subprocess.PIPE, text=True).stdout
    return [l.split()[0] for l in out.splitlines() if "verif build-tag hook" in l or l.split(" ", 1)[1].startswith("verif:")]

m = {
    "version": 1,
    "setup_cmd": "./check --setup",
    "hooks": {
        "guard": "verif",
        "enable": "go test -c -tags verif (the harness module in /verif/harness replaces github.com/couchbaselabs/rosmar with /repo)",
        "baseline_off_cmd": "cd /repo && GOFLAGS=-mod=mod GOPROXY=off GOSUMDB=off go test -json -vet=off -count=1 -timeout 25m ./...",
        "source_commits": repo_commits(),
        "add_only": True,
    },
    "engines": [
        {"name": "harness", "path": "/verif/harness", "serves_properties": sorted(CHECKS),
         "kind_free_text": "Go test binary: rapid v1.3.0 model-based generators, reference model with per-operation post-conditions over a full read-back, parking scheduler on verif hook points, child processes for crash/shutdown, ddmin over recorded histories"},
    ],
    "checks": [],
    "notes": NOTES,
    "not_applicable": NOT_APPLICABLE,
}
for prop in sorted(CHECKS):
    t = TEXT[prop]
    c = {
        "property_id": prop,
        "quick_cmd": "./check %s --tier quick" % prop,
        "thorough_cmd": "./check %s --tier thorough" % prop,
        "evidence_file": "/verif/evidence/%s.json" % prop,
        "replay_cmd_template": "./check %s --replay {path}" % prop,
        "engine": "harness",
        "level_claimed": {"category": CHECKS[prop].get("level", "exploration"), "text": t["level"], "design_ref": t["design_ref"]},
        "level_note": t["note"],
        "technique": t["technique"],
    }
    m["checks"].append(c)
json.dump(m, open(os.path.join(os.path.dirname(os.path.abspath(__file__)), "MANIFEST.json"), "w"), indent=1)
print("wrote MANIFEST.json with", len(m["checks"]), "checks;", len(NOT_APPLICABLE), "not applicable")
