# Human-written parts of MANIFEST.json (level text, trusted base, technique) per property.

NOTES = ("All checks are property-based tests / fuzzing (rapid v1.3.0; Go native fuzzing in some thorough tiers). "
         "Exit 0 = held on everything explored, 1 = VIOLATION line with a replay file, 2 = inconclusive. "
         "Genuine defects found on the pinned tree were repaired by 'fix:' commits in /repo or are listed in known_findings.json; see DESIGN.md sections 3, 6, 8.")

ALL = ["C%02d" % i for i in range(1, 21)]

SEQ_NOTE = "Trusted: the reference post-conditions (harness/spec.go), Go's encoding/json, SQLite. Don't-care corners (DESIGN 2.2) accept several outcomes. Exploration only: shows the property on everything generated."
SEQ_TECH = "stateful property-based testing (rapid state machine) against a reference model; ddmin shrinking of the recorded history"

TEXT = {
    "C01": {
        "level": "Generated-input search: thousands of model-based histories over every write entry point x prior document state x CAS class, on memory and disk buckets through 1-3 handles; after every step the whole bucket is read back through every read API and compared with per-operation post-conditions (exact body/CAS/expiry/xattrs/revision, error => unchanged, frame). Exploration, not proof.",
        "design_ref": "DESIGN.md 2.1-2.4, 4 (C01)", "note": SEQ_NOTE + " Values up to a few hundred bytes plus a lowered MaxDocSize boundary.", "technique": SEQ_TECH,
    },
    "C02": {
        "level": "Generated histories weighted to the ten conditional entry points with every CAS class (0, current, previous version, purged incarnation, other key's, never issued) against documents in every reachable state: success iff the CAS is current (with the documented meaning of 0), failure leaves the document unchanged. Races are explored by the parking-scheduler scripts (see DESIGN).",
        "design_ref": "DESIGN.md 4 (C02)", "note": SEQ_NOTE, "technique": SEQ_TECH + "; scheduled two-writer scripts on verif hook points",
    },
    "C05": {
        "level": "Generated histories weighted to delete / resurrect / xattr-on-tombstone / purge paths; every key is observed after every step through Get, GetRaw, Exists, GetWithXattrs, GetXattrs, $document, live feed events, dump-feed backfills and follow-up insert-style writes, which must all agree that 'tombstone == no body'; Delete/Remove xattr and expiry rules and purge exactness are pinned.",
        "design_ref": "DESIGN.md 2.3, 4 (C05)", "note": SEQ_NOTE, "technique": SEQ_TECH,
    },
    "C06": {
        "level": "Generated histories in which insert-style writes (Add, AddRaw, WriteCas cas=0/AddOnly, WriteResurrectionWithXattrs, WriteWithXattrs cas=0) follow delete/re-create cycles made through other entry points: accepted iff the model says the key has no body (resp. does not exist), refused inserts leave the document and the feed untouched.",
        "design_ref": "DESIGN.md 4 (C06)", "note": SEQ_NOTE, "technique": SEQ_TECH,
    },
    "C07": {
        "level": "Generated histories weighted to the nine xattr entry points with generated set/delete subsets, invalid arguments, oversize documents and CAS/CRC32c macro specs: untouched xattrs byte-identical, named ones value-equal, body/expiry intact, combined writes all-or-nothing under one CAS, macros recomputed independently (little-endian hex CAS, Castagnoli CRC of the stored body).",
        "design_ref": "DESIGN.md 4 (C07)", "note": SEQ_NOTE + " Xattr values stay inside what encoding/json round-trips (integers below 2^53, short decimals).", "technique": SEQ_TECH,
    },
    "C08": {
        "level": "Generated histories over all entry points with 1-3 live feeds (plain, KeysOnly, multi-collection) started and written through any handle; after a sentinel write (FIFO argument, no sleeps) each feed's events are matched one-to-one with the successful CAS-changing mutations and compared field by field with the document version they describe; CAS order per collection. Concurrent ordering is explored by scheduled scripts.",
        "design_ref": "DESIGN.md 2.5, 4 (C08)", "note": SEQ_NOTE + " Sentinel delivery bounded by 30 s.", "technique": SEQ_TECH + "; sentinel-synchronised event comparison; scheduled multi-writer scripts",
    },
    "C09": {
        "level": "Generated histories followed / interleaved by dump feeds from generated start CAS values: between the markers exactly one event per document with CAS >= start, in CAS order, each equal (opcode, body, xattrs, datatype, CAS, expiry, RevNo) to the model and to the datatype of the live event of the same version. The start-up gap is explored by scheduled scripts.",
        "design_ref": "DESIGN.md 4 (C09)", "note": SEQ_NOTE, "technique": SEQ_TECH + "; live-vs-backfill differential",
    },
    "C10": {
        "level": "Fault enumeration over instrumented crash points: rapid generates histories (documents, xattrs, deletes, purge, design docs, view queries, collection drop/re-create); a dry-run child counts the occurrences of each hook point; for drawn (quick) / many (thorough) <hook, occurrence> pairs a child process replays the history on a fresh on-disk bucket, acknowledges each returned call on stdout and SIGKILLs itself at that point. This process then opens the directory: every key equals the last acknowledged state, the interrupted call is either absent or a complete result (body, xattrs, CAS, expiry, revision checked against the call's post-condition), UUID / collections / design docs are the acknowledged ones, every incrementally maintained index equals a freshly built one (document and high-water mark moved together), and generated follow-up operations behave.",
        "design_ref": "DESIGN.md 2.6, 4 (C10)", "note": "Process death only (SIGKILL), not power loss: the OS page cache survives, so SQLite's synchronous setting is not exercised. Crash points are the verif hook points (transaction begin / before commit / after commit, between document write and high-water mark, before event posting, between sub-steps of sub-document writes), not arbitrary instructions. Pending expirations after reopen are covered by C14's reopen scenarios, not here.", "technique": "fault injection by enumerated crash points in a child process + model-based comparison after reopen (rapid-generated histories)",
    },
    "C11": {
        "level": "Generated histories spread over 2-3 collections with identical key names next to a second bucket with the same names: all entry points incl. Touch, expiries, purge, design docs + views, SQL queries, per-collection and multi-collection feeds, DropDataStore and re-creation through any handle. After every step every key of every other collection and of the other bucket reads back identical, other collections' query/view/design-doc probes return identical bytes, their feeds received nothing; drops remove exactly one collection, end exactly its feeds, and re-creation yields an empty collection through every handle.",
        "design_ref": "DESIGN.md 4 (C11)", "note": SEQ_NOTE + " The twin bucket is passive (never addressed by the generated operations).", "technique": SEQ_TECH + "; frame condition + differential probes over time",
    },
    "C12": {
        "level": "Generated design documents from a grammar of map functions with a Go twin, generated documents, all write entry points, design-doc replacement, and view queries with generated parameters placed anywhere in the history; every stale=false result is compared with (a) the twin evaluated over the model's documents with an own implementation of key collation restricted to the generated key domain and (b) a freshly built identical view (incremental == from scratch).",
        "design_ref": "DESIGN.md 4 (C12)", "note": SEQ_NOTE + " Keys are null/booleans/small numbers/[0-9a-z] strings/arrays thereof; include_docs, limit+reduce and updateAfter are not generated. *WithMeta writes are excluded by known finding K01.", "technique": SEQ_TECH + "; differential against an independent evaluator and against a fresh index",
    },
    "C13": {
        "level": "rapid state machine over bucket names x URLs (in-memory, two directories) with OpenBucket in each mode, Close, repeated Close and CloseAndDelete on any handle ever returned; after every step a write+read probe on every handle, cross-handle visibility, GetBucketNames and the database files are compared with a registry model. Plus concurrent open/probe/close loops of 2-6 goroutines with seeded scheduling noise on an already-created bucket.",
        "design_ref": "DESIGN.md 4 (C13)", "note": "What calls on handles of a deleted bucket return is a don't-care (any error). Two bucket names sharing one directory are not generated. The concurrent part samples schedules; it is not exhaustive.", "technique": "stateful property-based testing against a registry model; randomized concurrent stress with invariants",
    },
    "C15": {
        "level": "Scheduled scripts: a checkpointed, resumable feed is started, stopped by its terminator and restarted several times while writers mutate documents; stops are placed while a writer is held between commit and post and while the feed callback is held (events queued, not delivered), feed starts are held between backfill and registration; a final dump run resumes from the checkpoint. Oracle: the union of events over all runs contains the final version of every document; after each stop the checkpoint is not ahead of what that run's callback received and never goes backwards.",
        "design_ref": "DESIGN.md 2.5, 4 (C15)", "note": "Interleavings are those expressible at the verif hook points (commit->post, backfill->registration) plus a gate in the feed callback; not arbitrary preemption points.", "technique": "property-based testing of generated schedules (deterministic parking scheduler on hook points)",
    },
    "C17": {
        "level": "Generated histories over all mutating entry points: after each successful mutation the revision number (read through $document.revid, $document, live RevNo and backfill RevNo) is previous+1, 1 on creation or re-creation after purge, unchanged on failure.",
        "design_ref": "DESIGN.md 4 (C17)", "note": SEQ_NOTE, "technique": SEQ_TECH,
    },
    "C18": {
        "level": "Generated JSON documents, dotted paths, values and CAS classes for WriteSubDoc / SubdocInsert compared with a parse-edit-marshal reference (JSON-value equality), xattrs untouched, refusals leave the document unchanged; lost-update races explored by scheduled scripts.",
        "design_ref": "DESIGN.md 4 (C18)", "note": SEQ_NOTE + " Numbers are compared as float64.", "technique": SEQ_TECH + "; differential against a reference implementation",
    },
    "C19": {
        "level": "Generated histories over 1-3 collections sharing key names on memory and disk buckets with queries from a family (all rows, id = / LIKE / IN, COUNT(*), body and xattr property predicates, ordered or not, four iteration styles) placed anywhere; each result is compared as list / multiset of (id, body bytes, xattrs) with the same predicate evaluated in Go over the model.",
        "design_ref": "DESIGN.md 4 (C19)", "note": SEQ_NOTE + " Only the listed query family, not arbitrary SQL.", "technique": SEQ_TECH + "; differential against a Go evaluation of the same predicate",
    },
}

NOT_APPLICABLE = [
    {"property_id": p, "reason": "check under construction in this session (planned, see DESIGN.md section 4); not yet claimed"}
    for p in ALL if p not in TEXT
]
