# Human-written parts of MANIFEST.json (level text, trusted base, technique) per property.

NOTES = ("All checks are property-based tests / fuzzing (rapid v1.3.0; Go native fuzzing in some thorough tiers). "
         "Exit 0 = held on everything explored, 1 = VIOLATION line with a replay file, 2 = inconclusive. "
         "Genuine defects found on the pinned tree were repaired by 'fix:' commits in /repo or are listed in known_findings.json; see DESIGN.md sections 3, 6, 8.")

ALL = ["C%02d" % i for i in range(1, 21)]

TEXT = {
    "C01": {
        "level": "Generated-input search: thousands of model-based histories over every write entry point x prior document state x CAS class, on memory and disk buckets through 1-3 handles; after every step the whole bucket is read back through every read API and compared with per-operation post-conditions (exact body/CAS/expiry/xattrs/revision, error => unchanged, frame). Exploration, not proof: it shows the property on everything generated.",
        "design_ref": "DESIGN.md 2.1-2.4, 4 (C01)",
        "note": "Trusted: the reference post-conditions (harness/spec.go), Go's encoding/json, SQLite. Don't-care corners (DESIGN 2.2) accept several outcomes. Values up to a few hundred bytes plus a lowered MaxDocSize boundary.",
        "technique": "stateful property-based testing (rapid state machine) against a reference model; ddmin shrinking of the recorded history",
    },
}

NOT_APPLICABLE = [
    {"property_id": p, "reason": "check under construction in this session (planned, see DESIGN.md section 4); not yet claimed"}
    for p in ALL if p not in TEXT
]
