# Per-property check configuration used by ./check: which test functions decide the property and
# the case counts / shard counts per tier. Budgets are case counts, never per-case time limits;
# "timeout" is a safety net that maps to exit 2 (inconclusive).

SEQ_ASSUME = [
    "the sg-bucket interface comments and rosmar's own tests define the expected outcome where the property text is silent; undecided corners accept a set of outcomes (DESIGN.md 2.2)",
    "documents are observed through the public read API only; SQLite and go-sqlite3 are trusted",
]

def seq(tests, qchecks=600, tchecks=6000, qshards=8, per_test=None, **extra):
    d = {
        "tests": tests,
        "level": "exploration",
        "assumptions": SEQ_ASSUME,
        "quick": {"default": {"shards": qshards, "checks": qchecks, "steps": 30, "timeout": 600}},
        "thorough": {"default": {"shards": 16, "checks": tchecks, "steps": 80, "timeout": 3000}},
    }
    # per_test: {test: (quick shards, quick checks, thorough shards, thorough checks)}
    for t, (qs, qc, ts, tc) in (per_test or {}).items():
        d["quick"][t] = {"shards": qs, "checks": qc}
        d["thorough"][t] = {"shards": ts, "checks": tc}
    d.update(extra)
    return d

SCRIPT = (4, 120, 16, 1500)   # scheduled scripts: cheap per case, fewer cases

CHECKS = {
    "C01": seq(["TestC01"], fuzz={"FuzzC01Body": 240}),
    "C02": seq(["TestC02Seq", "TestC02Race", "TestC02Contend"], per_test={"TestC02Race": SCRIPT, "TestC02Contend": (4, 25, 16, 600)}),
    "C03": seq(["TestC03", "TestC03Interfere"], qchecks=150, tchecks=3000, qshards=8, per_test={"TestC03Interfere": (4, 1500, 16, 40000)}),
    "C04": seq(["TestC04Clock", "TestC04Bucket", "TestC04Reopen", "TestC04Race", "TestC04Expiry"], per_test={"TestC04Race": (4, 120, 16, 3000), "TestC04Expiry": (2, 300, 8, 6000), "TestC04Clock": (2, 3000, 8, 200000), "TestC04Reopen": (4, 40, 16, 1500)}),
    "C05": seq(["TestC05"]),
    "C06": seq(["TestC06"]),
    "C07": seq(["TestC07", "TestC07Race"], fuzz={"FuzzC07Xattr": 240}, per_test={"TestC07Race": (4, 150, 16, 3000)}),
    "C08": seq(["TestC08Seq", "TestC08Order", "TestC08Race"], per_test={"TestC08Order": SCRIPT, "TestC08Race": (4, 120, 16, 3000)}),
    "C09": seq(["TestC09Seq", "TestC09Gap", "TestC09Bulk"], per_test={"TestC09Gap": SCRIPT, "TestC09Bulk": (4, 40, 16, 800)}),
    "C10": seq(["TestC10", "TestC10Expiry"], qchecks=40, tchecks=150, level="fault_enumeration", per_test={"TestC10Expiry": (2, 2, 8, 12)}),
    "C11": seq(["TestC11"], qchecks=150, tchecks=1500),
    "C12": seq(["TestC12"], qchecks=200, tchecks=1200),
    "C13": seq(["TestC13", "TestC13Race", "TestC13Idle", "TestC13Child"], qchecks=400, tchecks=4000, qshards=4, per_test={"TestC13Idle": (8, 2, 16, 12), "TestC13Child": (8, 4, 16, 40)}),
    "C14": seq(["TestC14", "TestC14Window"], qchecks=4, tchecks=8, qshards=4, per_test={"TestC14Window": (3, 3, 9, 12)}),
    "C15": seq(["TestC15"], qchecks=20, tchecks=400, qshards=8),
    "C17": seq(["TestC17", "TestC17Race"], per_test={"TestC17Race": (4, 120, 16, 3000)}),
    "C18": seq(["TestC18Seq", "TestC18Race"], qchecks=400, fuzz={"FuzzC18Path": 240}, per_test={"TestC18Race": SCRIPT}),
    "C19": seq(["TestC19"], qchecks=400),
    "C20": seq(["TestC20"], qchecks=5, tchecks=40, qshards=8),
    "C16": seq(["TestC16"], qchecks=20, tchecks=300, qshards=6),
}
