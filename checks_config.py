# Per-property check configuration used by ./check: which test functions decide the property and
# the case counts / shard counts per tier. Budgets are case counts, never per-case time limits;
# "timeout" is a safety net that maps to exit 2 (inconclusive).

SEQ_ASSUME = [
    "the sg-bucket interface comments and rosmar's own tests define the expected outcome where the property text is silent; undecided corners accept a set of outcomes (DESIGN.md 2.2)",
    "documents are observed through the public read API only; SQLite and go-sqlite3 are trusted",
]

CHECKS = {
    "C01": {
        "tests": ["TestC01"],
        "level": "exploration",
        "assumptions": SEQ_ASSUME,
        "quick": {"default": {"shards": 8, "checks": 250, "steps": 30, "timeout": 600}},
        "thorough": {"default": {"shards": 16, "checks": 6000, "steps": 80, "timeout": 3000}},
    },
}
