package h

// C14 — expiry: documents live until their expiry time and are tombstoned soon after.

import (
	"encoding/json"
	"fmt"
	"sync"
	"testing"
	"time"

	sgbucket "github.com/couchbase/sg-bucket"
	"pgregory.net/rapid"
)

// expAction: one timed step of an expiry scenario.
type expAction struct {
	AtMs int    `json:"at"` // when (ms after scenario start)
	K    string `json:"k"`  // entry point
	Key  string `json:"key"`
	C    int    `json:"c"`
	TTL  int    `json:"ttl"` // seconds from the moment of the call; 0 = never; -1 = preserve (Set with PreserveExpiry)
	Abs  bool   `json:"abs"` // pass an absolute timestamp instead of an offset
}

type expScenario struct {
	Disk    bool        `json:"disk"`
	Colls   int         `json:"colls"`
	Actions []expAction `json:"actions"`
}

const expGuard = 5 // seconds after T by which the document must be gone ("a few seconds")

type expKeyModel struct {
	live     bool
	deadline uint32 // unix seconds; 0 = never
	lastCas  uint64
	row      bool // some call on the key succeeded since the collection was created: a document or a tombstone is there
	lives    int  // upper bound on how often the key has come to life, plus successful deletions of what was not (safely) alive: deletion events may not outnumber it
	flagged  bool
}

func genExpScenario(rt *rapid.T) expScenario {
	sc := expScenario{Disk: chance(rt, 35, "disk"), Colls: rapid.IntRange(1, 2).Draw(rt, "colls")}
	keys := []string{"a", "b", "c"}
	n := rapid.IntRange(2, 9).Draw(rt, "nactions")
	at := 0
	// the collections share one timer: in 40% of the two-collection scenarios one collection first gets
	// a document with a distant deadline and the other one most of the later (short) ones
	far := -1
	if sc.Colls == 2 && chance(rt, 40, "far") {
		far = rapid.IntRange(0, 1).Draw(rt, "far.c")
		sc.Actions = append(sc.Actions, expAction{AtMs: 0, K: "Set", Key: pick(rt, keys, "far.key"), C: far, TTL: pick(rt, []int{60, 3600}, "far.ttl")})
	}
	for i := 0; i < n; i++ {
		at += rapid.IntRange(0, 6).Draw(rt, "gap") * 100
		a := expAction{AtMs: at, Key: pick(rt, keys, "key"), C: rapid.IntRange(0, sc.Colls-1).Draw(rt, "c")}
		if far >= 0 && chance(rt, 70, "far.other") {
			a.C = 1 - far
		}
		a.K = pick(rt, []string{"Add", "ReAdd", "Set", "SetPreserve", "WriteCas", "Append", "Touch", "Touch", "GetAndTouchRaw", "GetAndTouchRaw", "WriteWithXattrs", "Update", "UpdateExp", "UpdateXattrs", "WriteUpdateX", "WriteUpdateXRetry", "SetWithMeta", "Delete", "DeleteWithXattrs", "Remove", "Incr", "Reopen", "Recreate", "Recreate", "SetPast"}, "k")
		a.TTL = pick(rt, []int{1, 1, 2, 2, 3, 4, 0, 60, 3600}, "ttl")
		a.Abs = rapid.Bool().Draw(rt, "abs")
		if a.K == "Reopen" && !sc.Disk {
			a.K = "Touch"
		}
		if a.K == "Append" {
			// what sets Append apart is the expiry it states over the one the document has: half of
			// them say "never", and most follow the action before them on its key
			if chance(rt, 50, "append.never") {
				a.TTL = 0
			}
			if len(sc.Actions) > 0 && chance(rt, 60, "append.same") {
				prev := sc.Actions[len(sc.Actions)-1]
				a.Key, a.C = prev.Key, prev.C
			}
		}
		sc.Actions = append(sc.Actions, a)
	}
	return sc
}

type expResult struct {
	devs         []Deviation
	armedEarlier bool // a deadline earlier than the pending one was introduced by another entry point / touch / preserve / reopen
	log          []string
}

// runExpScenario executes the timeline in real time in one goroutine: due actions, then a poll of
// every key, every 100 ms, until every finite deadline is past its guard band.
func runExpScenario(sc expScenario, windowSec int) (res expResult) {
	bad := func(clause, f string, a ...any) {
		res.devs = append(res.devs, Deviation{Clause: clause, Props: []string{"C14"}, Sig: clause, Msg: fmt.Sprintf(f, a...) + fmt.Sprintf(" (timeline: %v)", res.log)})
	}
	cfg := Config{Disk: sc.Disk, Handles: 1, Colls: allCollNames[:sc.Colls]}
	w, err := NewWorld(cfg)
	if err != nil {
		bad("exp.setup", "cannot create the bucket: %v", err)
		return
	}
	defer w.Close()
	// one live feed per collection: expiry must produce a deletion event
	type evKey struct {
		c   int
		key string
	}
	var fmu sync.Mutex
	delEvents := map[evKey][]uint64{}
	startFeeds := func() {
		for ci := 0; ci < sc.Colls; ci++ {
			ci := ci
			args := sgbucket.FeedArguments{ID: fmt.Sprintf("exp%d", ci), Backfill: sgbucket.FeedNoBackfill, Terminator: make(chan bool)}
			_ = w.RColl(0, ci).StartDCPFeed(ctx, args, func(ev sgbucket.FeedEvent) bool {
				if ev.Opcode == sgbucket.FeedOpDeletion {
					fmu.Lock()
					delEvents[evKey{ci, string(ev.Key)}] = append(delEvents[evKey{ci, string(ev.Key)}], ev.Cas)
					fmu.Unlock()
				}
				return true
			}, nil)
		}
	}
	startFeeds()
	model := map[evKey]*expKeyModel{}
	get := func(c int, k string) *expKeyModel {
		m := model[evKey{c, k}]
		if m == nil {
			m = &expKeyModel{}
			model[evKey{c, k}] = m
		}
		return m
	}
	start := time.Now()
	var pendingMin uint32 // earliest finite deadline the timer has reason to know about
	var lastArmer string
	apply := func(a expAction) {
		ds := w.Coll(0, a.C)
		m := get(a.C, a.Key)
		// settle the model first: a deadline that has passed its second makes the document dead
		now := nowSec()
		if m.live && m.deadline != 0 && now >= m.deadline {
			m.live = false
		}
		var exp uint32
		if a.TTL > 0 {
			exp = uint32(a.TTL)
			if a.Abs || a.TTL > 30*24*3600 {
				exp = now + uint32(a.TTL)
			}
		}
		t0 := nowSec()
		// (safely alive: a write to a key within a second of its deadline may already be a re-creation)
		liveBefore, deadlineBefore := m.live, m.deadline
		deletes := 0 // successful deletions made by this step (ReAdd's own, Delete, Remove, DeleteWithXattrs)
		var err error
		newDeadline := func() uint32 {
			if a.TTL <= 0 {
				return 0
			}
			return t0 + uint32(a.TTL) // offset form: the implementation adds its own "now" (t0..t1): checked with slack below
		}
		body := []byte(fmt.Sprintf(`{"at":%d}`, a.AtMs))
		wrote := false
		switch a.K {
		case "Add", "ReAdd":
			if a.K == "ReAdd" {
				// insert over a tombstone: the key is deleted first (no matter whether it existed)
				if ds.Delete(a.Key) == nil {
					deletes++ // (the Add that follows starts a new life)
					m.live, m.deadline = false, 0
				}
			}
			var added bool
			added, err = ds.Add(a.Key, exp, body)
			if err == nil && added {
				m.live, m.deadline, wrote = true, newDeadline(), true
			}
		case "Set":
			err = ds.Set(a.Key, exp, nil, body)
			if err == nil {
				m.live, m.deadline, wrote = true, newDeadline(), true
			}
		case "SetPast":
			// an absolute expiry that is already over when the document is written: due at once
			past := now - 1
			err = ds.Set(a.Key, past, nil, body)
			if err == nil {
				m.live, m.deadline, wrote = true, past, true
			}
		case "SetPreserve":
			err = ds.Set(a.Key, exp, &sgbucket.UpsertOptions{PreserveExpiry: true}, body)
			if err == nil && !m.live && deadlineBefore != 0 && now < deadlineBefore+expGuard {
				// the document was due moments ago and may or may not have been removed yet: this write
				// either preserved a deadline that is already over (the document goes at once) or
				// wrote over the tombstone; what was read back could be the tombstone of the former.
				// Not judged until the next write that states its own expiry; whatever it is now may
				// still produce one deletion event.
				m.live, m.deadline = false, 0
				m.lives++
				break
			}
			if err == nil {
				if !m.live {
					m.deadline = newDeadline() // nothing to preserve: the expiry given applies
					if m.row {
						// (DESIGN 2.2: tombstone + PreserveExpiry is a don't-care: read it back)
						if e, gerr := ds.GetExpiry(ctx, a.Key); gerr == nil {
							m.deadline = e
						}
					}
				}
				m.live, wrote = true, true
			}
		case "WriteCas":
			_, cas, gerr := ds.GetRaw(a.Key)
			if gerr != nil {
				cas = 0
			}
			_, err = ds.WriteCas(a.Key, exp, cas, body, 0)
			if err == nil {
				m.live, m.deadline, wrote = true, newDeadline(), true
			}
		case "Append":
			// WriteCas with the Append option: the expiry given replaces the old one like any other
			// write (0 = never expires); fails on a missing key or a tombstone (S-C14l)
			_, cas, gerr := ds.GetRaw(a.Key)
			if gerr != nil {
				cas = 0
			}
			_, err = ds.WriteCas(a.Key, exp, cas, []byte("+"), sgbucket.Append)
			if err == nil {
				m.live, m.deadline, wrote = true, newDeadline(), true
			}
		case "Touch":
			_, err = ds.Touch(a.Key, exp)
			if err == nil {
				m.deadline, wrote = newDeadline(), true
			}
		case "GetAndTouchRaw":
			_, _, err = ds.GetAndTouchRaw(a.Key, exp)
			if err == nil {
				m.deadline, wrote = newDeadline(), true
			}
		case "WriteWithXattrs":
			_, cas, gerr := ds.GetRaw(a.Key)
			if gerr != nil {
				cas = 0
				if m2, _ := Observe(ds, a.Key, nil); m2.Present {
					err = fmt.Errorf("skip: tombstone")
					break
				}
			}
			_, err = ds.WriteWithXattrs(ctx, a.Key, exp, cas, body, map[string][]byte{"_sync": []byte(`{"seq":1}`)}, nil, nil)
			if err == nil {
				m.live, m.deadline, wrote = true, newDeadline(), true
			}
		case "Update":
			e := exp
			_, err = ds.Update(a.Key, 0, func(cur []byte) ([]byte, *uint32, bool, error) { return body, &e, false, nil })
			if err == nil {
				m.live, m.deadline, wrote = true, newDeadline(), true
			}
		case "UpdateExp":
			// an Update whose callback changes nothing but the expiry
			if !m.live {
				err = fmt.Errorf("skip: not live")
				break
			}
			e := exp
			_, err = ds.Update(a.Key, 0, func(cur []byte) ([]byte, *uint32, bool, error) { return nil, &e, false, nil })
			if err == nil {
				m.deadline, wrote = newDeadline(), true
			}
		case "UpdateXattrs":
			if !m.live {
				err = fmt.Errorf("skip: not live")
				break
			}
			st, _ := Observe(ds, a.Key, nil)
			_, err = ds.UpdateXattrs(ctx, a.Key, exp, st.Cas, map[string][]byte{"_vv": []byte(`{"v":1}`)}, nil)
			if err == nil {
				m.deadline, wrote = newDeadline(), true
			}
		case "Incr":
			if m.live {
				err = fmt.Errorf("skip: body is not a counter")
				break
			}
			_, err = ds.Incr(a.Key, 1, 1, exp)
			if err == nil {
				m.live, m.deadline, wrote = true, newDeadline(), true
			}
		case "WriteUpdateX":
			// body + xattr through WriteUpdateWithXattrs, the expiry coming from the callback
			e := exp
			_, err = ds.WriteUpdateWithXattrs(ctx, a.Key, []string{"_sync"}, 0, nil, nil, func(doc []byte, xattrs map[string][]byte, cas uint64) (sgbucket.UpdatedDoc, error) {
				return sgbucket.UpdatedDoc{Doc: body, Xattrs: map[string][]byte{"_sync": []byte(`{"seq":2}`)}, Expiry: &e}, nil
			})
			if err == nil {
				m.live, m.deadline, wrote = true, newDeadline(), true
			}
		case "WriteUpdateXRetry":
			// a WriteUpdateWithXattrs that has to go round twice (stale `previous`): its first callback
			// invocation asks for the drawn expiry, the applied one for none. Nothing of the abandoned
			// attempt may stick: afterwards the expiry in force is "none" or the one there was before
			st, _ := Observe(ds, a.Key, nil)
			if !st.HasBody() {
				err = fmt.Errorf("skip: not live")
				break
			}
			prevDoc := &sgbucket.BucketDocument{Body: st.Body, Cas: st.Cas - 1, Xattrs: map[string][]byte{}}
			calls := 0
			e := exp
			_, err = ds.WriteUpdateWithXattrs(ctx, a.Key, []string{"_sync"}, 0, prevDoc, nil, func(doc []byte, xattrs map[string][]byte, cas uint64) (sgbucket.UpdatedDoc, error) {
				calls++
				u := sgbucket.UpdatedDoc{Doc: body, Xattrs: map[string][]byte{"_sync": []byte(`{"seq":3}`)}}
				if calls == 1 {
					u.Expiry = &e
				}
				return u, nil
			})
			if err == nil {
				got, _ := ds.GetExpiry(ctx, a.Key)
				switch {
				case got == 0:
					m.deadline = 0
				case got == m.deadline:
				case calls >= 2 && a.TTL > 0:
					bad("exp.value", "a retried WriteUpdateWithXattrs whose applied attempt asked for no expiry left expiry %d on %s/%q (before the call: %d): the expiry of the abandoned attempt", got, w.Cfg.Colls[a.C], a.Key, m.deadline)
					m.deadline = got
				default:
					m.deadline = got
				}
				m.live, wrote = true, false
			}
		case "SetWithMeta":
			// (absolute expiries only)
			st, _ := Observe(ds, a.Key, nil)
			var casIn uint64
			if st.Present {
				casIn = st.Cas
			}
			abs := uint32(0)
			if a.TTL > 0 {
				abs = now + uint32(a.TTL)
			}
			err = w.RColl(0, a.C).SetWithMeta(ctx, a.Key, casIn, uint64(time.Now().UnixNano())|0x3039, abs, nil, body, sgbucket.FeedDataTypeJSON)
			if err == nil {
				m.live, wrote = true, true
				m.deadline = 0
				if a.TTL > 0 {
					m.deadline = abs
				}
			}
		case "DeleteWithXattrs", "Remove":
			if !m.live {
				err = fmt.Errorf("skip: not live")
				break
			}
			if a.K == "Remove" {
				st, _ := Observe(ds, a.Key, nil)
				_, err = ds.Remove(a.Key, st.Cas)
			} else {
				err = ds.DeleteWithXattrs(ctx, a.Key, nil)
			}
			if err == nil {
				deletes++
				m.live, m.deadline = false, 0
			}
		case "Delete":
			err = ds.Delete(a.Key)
			if err == nil {
				deletes++
				m.live, m.deadline = false, 0
			}
		case "Recreate":
			// the named collection is dropped and created again: its documents are gone, and what is
			// written there afterwards expires like anywhere else
			if sc.Colls < 2 {
				break
			}
			if derr := w.Handles[0].DropDataStore(dsName(allCollNames[1])); derr != nil {
				bad("exp.recreate", "DropDataStore failed: %v", derr)
				break
			}
			w.colls[0][1] = nil
			if cerr := w.Handles[0].CreateDataStore(ctx, dsName(allCollNames[1])); cerr != nil {
				bad("exp.recreate", "CreateDataStore failed: %v", cerr)
				break
			}
			for k, km := range model {
				if k.c == 1 {
					km.live, km.deadline, km.row = false, 0, false
				}
			}
			args := sgbucket.FeedArguments{ID: fmt.Sprintf("expR%d", a.AtMs), Backfill: sgbucket.FeedNoBackfill, Terminator: make(chan bool)}
			_ = w.RColl(0, 1).StartDCPFeed(ctx, args, func(ev sgbucket.FeedEvent) bool {
				if ev.Opcode == sgbucket.FeedOpDeletion {
					fmu.Lock()
					delEvents[evKey{1, string(ev.Key)}] = append(delEvents[evKey{1, string(ev.Key)}], ev.Cas)
					fmu.Unlock()
				}
				return true
			}, nil)
		case "Reopen":
			// (TTL doubles as "how long the bucket stays closed": 0 or up to 2.4 s, so that deadlines pass
			// while nobody has it open)
			closedFor := time.Duration(0)
			if a.TTL >= 1 && a.TTL <= 4 {
				closedFor = time.Duration(a.TTL) * 600 * time.Millisecond
			}
			if rerr := w.ReopenAfter(closedFor); rerr != nil {
				bad("exp.reopen", "reopen failed: %v", rerr)
			}
			startFeeds()
			lastArmer = "Reopen"
		}
		t1 := nowSec()
		if wrote && a.TTL > 0 && !a.Abs && t1 != t0 {
			// offset form: the implementation read "now" somewhere in [t0, t1]; take what it stored
			if e, gerr := ds.GetExpiry(ctx, a.Key); gerr == nil && e >= t0+uint32(a.TTL) && e <= t1+uint32(a.TTL) {
				m.deadline = e
			}
		}
		if wrote && m.deadline != 0 {
			if pendingMin != 0 && m.deadline < pendingMin && (lastArmer != a.K || a.K == "Touch" || a.K == "GetAndTouchRaw" || a.K == "SetPreserve") {
				res.armedEarlier = true
			}
			if pendingMin == 0 || m.deadline < pendingMin {
				pendingMin = m.deadline
				lastArmer = a.K
			}
		}
		if err == nil && a.K != "Reopen" && a.K != "Recreate" {
			m.row = true
		}
		{
			// deletion events this step can account for. Safely alive = alive, and not within a second
			// of its deadline even when the step ended (a slow step may have met an expired document):
			// such a document uses up one event when it is deleted; deleting anything else again may
			// succeed with an event of its own (DESIGN 2.2), and a document that comes to life gets one
			safe := liveBefore && (deadlineBefore == 0 || nowSec()+1 < deadlineBefore)
			if deletes > 0 && !safe {
				m.lives += deletes
			} else if deletes > 1 {
				m.lives += deletes - 1
			}
			if err == nil && a.K != "Reopen" && a.K != "Recreate" && m.live && (!safe || deletes > 0) {
				m.lives++
			}
		}
		res.log = append(res.log, fmt.Sprintf("+%dms %s %s/%s ttl=%d abs=%v -> err=%v deadline=%d live=%v", a.AtMs, a.K, cfg.Colls[a.C], a.Key, a.TTL, a.Abs, err, m.deadline, m.live))
	}
	poll := func() {
		for ek, m := range model {
			ds := w.Coll(0, ek.c)
			t0 := nowSec()
			_, _, err := ds.GetRaw(ek.key)
			t1 := nowSec()
			present := err == nil
			if err != nil && errClass(err) != "missing" {
				bad("exp.read", "GetRaw(%s) failed: %v", ek.key, err)
				continue
			}
			fmu.Lock()
			nDel := len(delEvents[ek])
			delCas := fmt.Sprintf("%x", delEvents[ek])
			fmu.Unlock()
			if nDel > m.lives && !m.flagged {
				m.flagged = true
				bad("exp.spurious", "%s/%q has come to life (or had a tombstone deleted again) at most %d time(s) but %d deletion events (CAS %s) were delivered for it: something that was not a live document expired", cfg.Colls[ek.c], ek.key, m.lives, nDel, delCas)
			}
			switch {
			case m.live && (m.deadline == 0 || t1 < m.deadline):
				if !present {
					bad("exp.early", "%s/%q is gone at second %d although its expiry is %d (0 = never): it must stay readable until then", cfg.Colls[ek.c], ek.key, t1, m.deadline)
					m.live = false
				} else if m.deadline == 0 || t1+1 < m.deadline {
					if e, gerr := ds.GetExpiry(ctx, ek.key); gerr == nil && e != m.deadline {
						bad("exp.value", "GetExpiry(%s/%q) = %d, the expiry in force is %d", cfg.Colls[ek.c], ek.key, e, m.deadline)
						m.deadline = e
					}
				}
			case m.live && m.deadline != 0 && t0 >= m.deadline+expGuard:
				if present {
					bad("exp.late", "%s/%q is still readable at second %d, %d s after its expiry %d", cfg.Colls[ek.c], ek.key, t0, t0-m.deadline, m.deadline)
					m.live = false // report once
				} else {
					m.live = false
					st, cdevs := Observe(ds, ek.key, []string{"_sync", "_vv"})
					for _, d := range cdevs {
						d.Props = []string{"C14", "C05"}
						res.devs = append(res.devs, d)
					}
					if st.HasBody() {
						bad("exp.tombstone", "expired document %q still has a body through another observer", ek.key)
					}
					fmu.Lock()
					n := len(delEvents[ek])
					fmu.Unlock()
					if n == 0 {
						bad("exp.event", "%s/%q expired (deadline %d, now %d) but no deletion event reached the feed", cfg.Colls[ek.c], ek.key, m.deadline, t0)
					}
				}
			case m.live && m.deadline != 0 && t1 >= m.deadline && !present:
				m.live = false // expired inside the guard band: fine
			}
		}
	}
	next := 0
	end := start.Add(time.Duration(windowSec) * time.Second)
	for time.Now().Before(end) {
		elapsed := int(time.Since(start) / time.Millisecond)
		for next < len(sc.Actions) && sc.Actions[next].AtMs <= elapsed {
			apply(sc.Actions[next])
			next++
		}
		poll()
		// stop early when nothing can happen any more
		if next == len(sc.Actions) {
			pending := false
			for _, m := range model {
				if m.live && m.deadline != 0 && m.deadline < nowSec()+120 {
					pending = true
				}
			}
			if !pending && time.Since(start) > 2*time.Second {
				break
			}
		}
		time.Sleep(100 * time.Millisecond)
	}
	return
}

func TestC14(t *testing.T) {
	st := statsFor("C14", "TestC14")
	st.Rule = "real-time scenarios, a batch of them running concurrently on separate buckets (memory / disk, 1-2 collections with the same keys): generated timelines of Add / delete-then-Add / Set / Set+PreserveExpiry / WriteCas / Touch / GetAndTouchRaw / WriteWithXattrs / Update / expiry-only Update / UpdateXattrs / WriteUpdateWithXattrs (also retried) / SetWithMeta / Incr / Delete / DeleteWithXattrs / Remove / close+reopen / drop+re-creation of the collection (40% of the two-collection timelines begin with a distant deadline in one collection and put most later ones into the other) with expiries of 1-4 s, 60 s, 3600 s or none, as offsets or absolute times, in generated orders of deadlines; every 100 ms every key is read: a read that completes in a second before T must find the document, a read that starts at or after T+5 s must not, in between no judgement; expired documents must be coherent tombstones with a deletion event on a live feed; GetExpiry must report the expiry in force; non-trivial = a deadline earlier than the pending one is introduced by a different entry point than the one that armed the timer, or by Touch / PreserveExpiry / reopen; distinct by scenario"
	window := 12
	if replayMode() {
		rp := loadReplay("TestC14")
		if rp == nil {
			t.Skip("replay file is for another test")
		}
		var sc expScenario
		if err := json.Unmarshal(rp.Extra, &sc); err != nil {
			t.Fatal(err)
		}
		res := runExpScenario(sc, window)
		st.Case(1, true, func() any { return sc })
		if len(res.devs) > 0 {
			t.Fatalf("property C14 violated by replay:%s", devText(res.devs))
		}
		return
	}
	batch := 24
	if tier() == "thorough" {
		batch = 32
	}
	var once sync.Once
	rapid.Check(t, func(rt *rapid.T) {
		scs := make([]expScenario, batch)
		for i := range scs {
			scs[i] = genExpScenario(rt)
		}
		results := make([]expResult, batch)
		var wg sync.WaitGroup
		for i := range scs {
			wg.Add(1)
			go func(i int) {
				defer wg.Done()
				results[i] = runExpScenario(scs[i], window)
			}(i)
		}
		wg.Wait()
		for i, res := range results {
			b, _ := json.Marshal(scs[i])
			st.Case(fnvString(string(b)), res.armedEarlier, func() any { return map[string]any{"scenario": scs[i], "timeline": res.log} })
			var ds []Deviation
			for _, d := range res.devs {
				if d.Has("C14") {
					if id, ok := tolerated("C14", d); ok {
						st.KnownHits[id]++
						continue
					}
					ds = append(ds, d)
				}
			}
			if len(ds) > 0 {
				once.Do(func() {
					saveReplay(&Replay{Property: "C14", Test: "TestC14", Extra: b, Expect: ds})
					st.Violations++
				})
				rt.Fatalf("property C14 violated (replay %s):%s", replayPath("C14", "TestC14"), devText(ds))
			}
		}
	})
}

// ---- the select -> delete window of the expiry run -------------------------------------------------

type expWindowCase struct {
	Disk   bool   `json:"disk"`
	Op     string `json:"op"`  // what lengthens / clears the expiry inside the window
	NewTTL int    `json:"ttl"` // new expiry in seconds (0 = never)
}

func runExpWindow(c expWindowCase) (devs []Deviation, parked bool, err error) {
	bad := func(clause, f string, a ...any) {
		devs = append(devs, Deviation{Clause: clause, Props: []string{"C14"}, Sig: clause, Msg: fmt.Sprintf(f, a...)})
	}
	w, err := NewWorld(Config{Disk: c.Disk, Handles: 1, Colls: allCollNames[:1]})
	if err != nil {
		return nil, false, err
	}
	defer w.Close()
	s := NewSched(w.Name)
	defer s.Stop()
	s.Grace = 200 * time.Millisecond
	ds := w.Coll(0, 0)
	s.Gate("expire.betweenSelectAndDelete")
	if err := ds.Set("k", nowSec()+1, nil, []byte(`{"v":1}`)); err != nil {
		return nil, false, err
	}
	_ = ds.Set("other", nowSec()+1, nil, []byte(`{"v":2}`))
	if !s.WaitGate("expire.betweenSelectAndDelete", 1, 8*time.Second) {
		bad("exp.late", "the expiry timer did not run within 8 s of a 1 s expiry")
		return
	}
	parked = true
	// the timer has selected "k" and "other" as due; now k's expiry is lengthened / cleared
	var newExp uint32
	if c.NewTTL > 0 {
		newExp = nowSec() + uint32(c.NewTTL)
	}
	status := s.Start("T", nil, func() {
		switch c.Op {
		case "Touch":
			_, _ = ds.Touch("k", newExp)
		case "Set":
			_ = ds.Set("k", newExp, nil, []byte(`{"v":3}`))
		case "GetAndTouchRaw":
			_, _, _ = ds.GetAndTouchRaw("k", newExp)
		}
	})
	s.OpenGate("expire.betweenSelectAndDelete")
	if status == "running" {
		status = s.Await("T")
	}
	if status == "hang" {
		bad("exp.deadlock", "%s of a due document while the expiry run is between selecting and deleting never returned", c.Op)
		return
	}
	// wait until the run has certainly finished: "other" gets deleted by it
	deadline := time.Now().Add(8 * time.Second)
	for time.Now().Before(deadline) {
		if _, _, e := ds.GetRaw("other"); e != nil {
			break
		}
		time.Sleep(20 * time.Millisecond)
	}
	time.Sleep(50 * time.Millisecond)
	_, _, e := ds.GetRaw("k")
	exp, _ := ds.GetExpiry(ctx, "k")
	if e != nil {
		bad("exp.early", "the expiry of %q was changed to %d (0 = never) by %s before the expiry run deleted it, yet the run deleted it at second %d", "k", newExp, c.Op, nowSec())
	} else if exp != newExp {
		bad("exp.value", "GetExpiry = %d after %s set %d", exp, c.Op, newExp)
	}
	return
}

func TestC14Window(t *testing.T) {
	st := statsFor("C14", "TestC14Window")
	st.Rule = "scheduled scenario: a document with a 1 s expiry; the expiry run is held (gate at expire.betweenSelectAndDelete) after it selected the due keys; Touch / GetAndTouchRaw / Set then lengthens or clears the document's expiry; the run is released; the document must still be there with its new expiry; non-trivial = the run was really held in the window; distinct by case parameters"
	if replayMode() {
		rp := loadReplay("TestC14Window")
		if rp == nil {
			t.Skip("replay file is for another test")
		}
		var c expWindowCase
		if err := json.Unmarshal(rp.Extra, &c); err != nil {
			t.Fatal(err)
		}
		devs, _, err := runExpWindow(c)
		if err != nil {
			t.Fatalf("infrastructure: %v", err)
		}
		st.Case(1, true, func() any { return c })
		if len(devs) > 0 {
			t.Fatalf("property C14 violated by replay:%s", devText(devs))
		}
		return
	}
	var once sync.Once
	rapid.Check(t, func(rt *rapid.T) {
		c := expWindowCase{Disk: chance(rt, 30, "disk"), Op: pick(rt, []string{"Touch", "Set", "GetAndTouchRaw"}, "op"), NewTTL: pick(rt, []int{0, 3600, 100}, "ttl")}
		devs, parked, err := runExpWindow(c)
		if err != nil {
			rt.Fatalf("INFRA: %v", err)
		}
		b, _ := json.Marshal(c)
		st.Case(fnvString(string(b)), parked, func() any { return c })
		var ds []Deviation
		for _, d := range devs {
			if id, ok := tolerated("C14", d); ok {
				st.KnownHits[id]++
				continue
			}
			ds = append(ds, d)
		}
		if len(ds) > 0 {
			once.Do(func() {
				saveReplay(&Replay{Property: "C14", Test: "TestC14Window", Extra: b, Expect: ds})
				st.Violations++
			})
			rt.Fatalf("property C14 violated (replay %s):%s", replayPath("C14", "TestC14Window"), devText(ds))
		}
	})
}
