package h

import (
	"bytes"
	"fmt"
	"github.com/couchbaselabs/rosmar"
	"hash/fnv"
	"sort"
	"strings"
)

// StepTrace: what happened at one step (kept for replay files, samples and signatures).
type StepTrace struct {
	Op      Op     `json:"op"`
	Prior   string `json:"prior"`   // prior-state class of the target key
	Cas     string `json:"cas"`     // resolved CAS class
	Outcome string `json:"outcome"` // name of the matching alternative, or "DEVIATION"
	Err     string `json:"err,omitempty"`
}

// ExpEvent: a feed event the model expects for a successful mutation.
type ExpEvent struct {
	C      int
	Key    string
	St     St
	Step   int
	Meta   bool  // CAS supplied by the caller (*WithMeta): exempt from the ordering clause
	IsJSON *bool // expected JSON datatype bit, nil = not pinned
	OpK    string
	// Optional: a *WithMeta write that re-used the CAS the document already had: C08 speaks of
	// writes that give a document a *new* CAS, so the event may or may not come (if it comes it
	// must be faithful)
	Optional bool
}

// Run is one executed history.
type Run struct {
	W            *World
	Prop         string
	Devs         []Deviation
	Trace        []StepTrace
	Exp          []ExpEvent // expected events since the last sync, in order
	step         int
	nDo          int          // number of steps executed so far (index into the replay)
	curOp        Op           // the step being executed
	sentTomb     map[int]bool // collections that currently hold the sentinel tombstone
	DropHappened bool
	Ghosts       []ghost // data store objects of dropped collections, kept to be used after the drop
	ghostWrites  int
	stoppedFeeds []*Collector
	cpSeen       map[int]uint64 // per collection: highest CAS its checkpointed dump runs delivered
	heldIters    []heldIter     // query iterators left open by "hold" queries
	heldReads    []heldRead     // byte slices returned by earlier reads, with a copy of what they held
	SharedKeyOps int            // steps whose key existed in >= 2 collections in different states
	IsoProbes    bool           // C11: compare query/view/ddoc probes of other collections after each step
	probes       map[int]string
	Twin         *World // C11: a second bucket with the same collection and key names; must never change
	twinState    map[string]St
	DDocs        map[int]map[string]map[string]ViewSpec // model of the design documents per collection
	NoObserveAll bool                                   // only observe the target key (cheap mode; Frame disabled)
	Poisoned     bool
}

func NewRun(w *World, prop string) *Run { return &Run{W: w, Prop: prop} }

func (r *Run) dev(clause string, props []string, f string, a ...any) {
	r.Devs = append(r.Devs, Deviation{Clause: clause, Props: props, Step: r.step, Msg: fmt.Sprintf(f, a...)})
}

// DevsFor returns the deviations that belong to property prop.
func (r *Run) DevsFor(prop string) []Deviation {
	var out []Deviation
	for _, d := range r.Devs {
		if d.Has(prop) {
			out = append(out, d)
		}
	}
	return out
}

func propsOf(op Op, clause string, p St) []string {
	f := family(op)
	set := map[string]bool{}
	add := func(ps ...string) {
		for _, x := range ps {
			set[x] = true
		}
	}
	switch clause {
	case "outcome":
		switch {
		case f.insert:
			add("C06")
		case f.subdoc:
			add("C18", "C02")
		case f.cond:
			add("C02")
		default:
			add("C01")
		}
		if f.insert && f.cond {
			add("C02")
		}
		if f.xattr {
			add("C07")
		}
		if !p.HasBody() {
			add("C05")
		}
		if f.touch {
			add("C01", "C14")
		}
	case "same":
		add("C01")
		if f.cond {
			add("C02")
		}
		if f.insert {
			add("C06")
		}
		if f.xattr {
			add("C07")
		}
		if f.subdoc {
			add("C18")
		}
	case "body":
		add("C01")
		if f.del || !p.HasBody() {
			add("C05")
		}
		if f.insert {
			add("C06")
		}
		if f.subdoc {
			add("C18")
		}
		if f.xattr {
			add("C07")
		}
	case "xattrs":
		add("C07")
		if f.del || !p.HasBody() {
			add("C05")
		}
		if f.insert {
			add("C06")
		}
		if f.subdoc {
			add("C18")
		}
	case "macro":
		add("C07")
	case "exp":
		add("C01", "C14")
		if f.xattr {
			add("C07")
		}
		if f.del {
			add("C05")
		}
	case "rev":
		add("C17")
	case "cas":
		add("C01", "C04")
		if f.cond {
			add("C02")
		}
	case "ret":
		add("C01")
		if op.K == "Incr" || op.K == "Update" || op.K == "WriteUpdateWithXattrs" {
			add("C03")
		}
		if f.touch {
			add("C14")
		}
	case "added":
		add("C06")
	case "panic":
		add("C01", "C20", "C08", "C17")
		if f.xattr {
			add("C07")
		}
	}
	out := make([]string, 0, len(set))
	for k := range set {
		out = append(out, k)
	}
	sort.Strings(out)
	return out
}

type altFail struct{ clause, msg string }

func inErrs(cls string, a Alt) bool {
	if a.AnyErr {
		return cls != ""
	}
	if len(a.Errs) == 0 {
		return cls == ""
	}
	for _, e := range a.Errs {
		if e == cls {
			return true
		}
	}
	return false
}

// evalAlt checks one alternative against what happened; returns the clauses that fail.
func evalAlt(a Alt, op Op, p St, res Result, post St, m *Model) []altFail {
	var fails []altFail
	bad := func(clause, f string, args ...any) {
		fails = append(fails, altFail{clause, fmt.Sprintf(f, args...)})
	}
	if !inErrs(res.Err, a) {
		want := "success"
		if a.AnyErr {
			want = "an error"
		} else if len(a.Errs) > 0 {
			want = "error in " + strings.Join(a.Errs, "|")
		}
		got := "success"
		if res.Err != "" {
			got = "error " + res.Err + " (" + res.ErrMsg + ")"
		}
		bad("outcome", "expected %s, got %s", want, got)
	}
	if a.Added != nil && res.Err == "" && res.Added != *a.Added {
		bad("added", "added=%v, expected %v", res.Added, *a.Added)
	}
	if a.Ret != nil {
		if msg := a.Ret(res); msg != "" {
			bad("ret", "%s", msg)
		}
	}
	if a.Same {
		if !p.Equal(post) {
			bad("same", "call must leave the document unchanged: before %s after %s", p, post)
		}
		return fails
	}
	if a.Absent {
		if post.Present {
			bad("body", "key must be gone, found %s", post)
		}
		return fails
	}
	if !post.Present {
		bad("body", "document must exist after the call, but it is absent")
		return fails
	}
	// body
	switch {
	case a.BodyFree:
		if post.Body == nil {
			bad("body", "expected a body, document has none")
		}
	case a.BodyNil:
		if post.Body != nil {
			bad("body", "expected no body (tombstone), found %q", post.Body)
		}
	case a.BodyJSON:
		if post.Body == nil || !jsonEqual(post.Body, a.Body) {
			bad("body", "expected body (as JSON) %s, found %q", a.Body, post.Body)
		}
	default:
		if post.Body == nil || !bytes.Equal(post.Body, a.Body) {
			bad("body", "expected body %q, found %q (nil=%v)", a.Body, post.Body, post.Body == nil)
		}
	}
	// xattrs
	if !a.X.Free {
		seen := map[string]bool{}
		for k, v := range a.X.Keep {
			seen[k] = true
			got, ok := post.X[k]
			if !ok {
				if a.X.UserFree && (k == "" || k[0] != '_') {
					continue
				}
				bad("xattrs", "untouched xattr %q disappeared (was %s)", k, v)
			} else if got != v {
				bad("xattrs", "untouched xattr %q changed: was %s now %s", k, v, got)
			}
		}
		for k, v := range a.X.Val {
			seen[k] = true
			want := v
			if len(a.Macros) > 0 {
				if exp, ok := applyMacros(k, v, a.Macros, post.Cas, post.Body); ok {
					want = exp
				}
			}
			got, ok := post.X[k]
			if !ok {
				bad("xattrs", "xattr %q written by the call is missing", k)
			} else if !jsonEqual([]byte(got), []byte(want)) {
				clause := "xattrs"
				if len(a.Macros) > 0 && want != v {
					clause = "macro"
				}
				bad(clause, "xattr %q: expected %s, found %s", k, want, got)
			}
		}
		for k, v := range post.X {
			if !seen[k] {
				bad("xattrs", "unexpected xattr %q=%s after the call", k, v)
			}
		}
	}
	// expiry
	if !a.ExpFree {
		ok := post.Exp >= a.ExpLo && post.Exp <= a.ExpHi
		for _, e := range a.ExpAlso {
			if post.Exp == e {
				ok = true
			}
		}
		if len(a.ExpAlso) == 2 && post.Exp >= a.ExpAlso[0] && post.Exp <= a.ExpAlso[1] {
			ok = true
		}
		if !ok {
			bad("exp", "expiry is %d, expected [%d,%d] %v", post.Exp, a.ExpLo, a.ExpHi, a.ExpAlso)
		}
	}
	// revision
	wantRev := uint64(1)
	if p.Present {
		wantRev = p.Rev + 1
	}
	if post.Rev != wantRev {
		bad("rev", "revision number is %d, expected %d (previous %d, present=%v)", post.Rev, wantRev, p.Rev, p.Present)
	}
	// cas
	switch {
	case a.CasSame:
		if post.Cas != p.Cas {
			bad("cas", "CAS changed from %#x to %#x on a touch", p.Cas, post.Cas)
		}
	case a.CasExact != 0:
		if post.Cas != a.CasExact {
			bad("cas", "CAS is %#x, expected the caller's %#x", post.Cas, a.CasExact)
		}
	default:
		if !a.NoRetCas && res.Err == "" && res.Cas != post.Cas {
			bad("cas", "call returned CAS %#x but the document now has %#x", res.Cas, post.Cas)
		}
		if post.Cas <= m.MaxIssued {
			bad("cas", "new CAS %#x is not greater than an earlier CAS %#x", post.Cas, m.MaxIssued)
		}
		if p.Present && post.Cas == p.Cas {
			bad("cas", "mutation did not change the CAS (%#x)", post.Cas)
		}
	}
	return fails
}

// Step executes one document op, reads everything back and judges it.
func (r *Run) Step(op Op) {
	w := r.W
	m := w.Model
	ki := m.Info(op.C, op.Key)
	for k := range op.X {
		if validXattrName(k) {
			ki.XNames[k] = true
		}
	}
	p := ki.St
	for ci := range m.Colls {
		if ci != op.C && !m.Colls[ci].Dropped {
			if o := m.Get(ci, op.Key); o.Present && o.Class() != p.Class() {
				r.SharedKeyOps++
				break
			}
		}
	}
	res := w.Exec(op)
	tr := StepTrace{Op: op, Prior: p.Class(), Cas: res.CasClass, Err: res.Err}
	if res.Hang {
		r.dev("hang", []string{"C20", r.Prop}, "%s did not return within %s", op.K, callTimeout)
		r.Poisoned = true
		tr.Outcome = "HANG"
		r.Trace = append(r.Trace, tr)
		return
	}
	if res.Panic != "" {
		r.dev("panic", propsOf(op, "panic", p), "%s panicked: %s", op, res.Panic)
	}
	// read back
	readH := (r.step + op.H + 1) % len(w.Handles)
	post, cdevs := Observe(w.Coll(readH, op.C), op.Key, ki.XNameList())
	r.hold("GetRaw", op.Key, "C01", post.Body)
	for _, d := range cdevs {
		d.Step = r.step
		d.Msg = fmt.Sprintf("after %s: %s", op.K, d.Msg)
		r.Devs = append(r.Devs, d)
	}
	alts := ExpectAll(op, p, res)
	var best []altFail
	bestIdx := -1
	for i, a := range alts {
		fails := evalAlt(a, op, p, res, post, m)
		if res.Panic != "" && !a.Same {
			// a panic is never an acceptable way to report an outcome; already recorded above
		}
		if bestIdx < 0 || len(fails) < len(best) {
			best, bestIdx = fails, i
		}
		if len(fails) == 0 {
			break
		}
	}
	chosen := alts[bestIdx]
	if len(best) == 0 {
		tr.Outcome = chosen.Name
	} else {
		tr.Outcome = "DEVIATION"
		for _, f := range best {
			r.Devs = append(r.Devs, Deviation{
				Clause: f.clause, Props: propsOf(op, f.clause, p), Step: r.step,
				Msg: fmt.Sprintf("%s on %s key %q (cas %s; expected outcome %q): %s", op.K, p.Class(), op.Key, res.CasClass, chosen.Name, f.msg),
				Sig: fmt.Sprintf("%s|%s|%s|%s|%s", f.clause, op.K, p.Class(), ki.LostBodyBy, res.CasClass),
			})
		}
	}
	r.Trace = append(r.Trace, tr)

	// expected feed event: every mutation that gave the document a new CAS
	changedCas := post.Present && (!p.Present || post.Cas != p.Cas)
	if changedCas && res.Err == "" {
		fam := family(op)
		ev := ExpEvent{C: op.C, Key: op.Key, St: post, Step: r.step, Meta: fam.meta, OpK: op.K}
		ev.IsJSON = pinnedJSON(op, post)
		r.Exp = append(r.Exp, ev)
	} else if res.Err == "" && family(op).meta && post.Present && p.Present && post.Cas == p.Cas && !post.Equal(p) {
		ev := ExpEvent{C: op.C, Key: op.Key, St: post, Step: r.step, Meta: true, OpK: op.K, Optional: true}
		ev.IsJSON = pinnedJSON(op, post)
		r.Exp = append(r.Exp, ev)
	} else if changedCas && res.Err != "" {
		// a failed call changed the document: already reported by the "same" clause; keep the
		// event stream check aligned by expecting nothing.
	}
	// frame: nothing else changed
	if !r.NoObserveAll {
		r.frame(op.C, op.Key, op.K)
	}
	m.Commit(op.C, op.Key, post, op.K)
	if res.Err == "" && post.Present && post.Cas != p.Cas {
		if pj := pinnedJSON(op, post); pj != nil {
			// the entry point fixes the datatype of what it stored: known without waiting for the feed
			m.Info(op.C, op.Key).IsJSON = pj
		}
	} else if res.Err == "" && family(op).meta && post.Present && !post.Equal(p) {
		// a *WithMeta write that kept the CAS: a new version all the same, with its own datatype
		m.Info(op.C, op.Key).IsJSON = pinnedJSON(op, post)
	}
	if post.Present && post.Cas != p.Cas && !family(op).meta && post.Cas > m.MaxIssued {
		m.MaxIssued = post.Cas
	}
}

// pinnedJSON: the JSON datatype bit where the API pins it.
func pinnedJSON(op Op, post St) *bool {
	if post.Body == nil {
		return nil
	}
	switch op.K {
	case "Add", "Set", "Update":
		if op.K == "Update" && op.Cb != "set" && op.Cb != "retry" {
			return nil
		}
		return boolp(true)
	case "WriteCas":
		if op.Raw || op.Append {
			return nil
		}
		return boolp(true)
	case "SetWithMeta":
		return boolp(op.JSON)
	case "WriteSubDoc", "SubdocInsert":
		return boolp(true)
	}
	return nil
}

// frame checks that every key other than (c,key) still reads as the model says.
func (r *Run) frame(c int, key string, what string) {
	w := r.W
	m := w.Model
	readH := r.step % len(w.Handles)
	for ci := range m.Colls {
		if m.Colls[ci].Dropped {
			continue
		}
		for _, k := range m.Keys(ci) {
			if ci == c && k == key {
				continue
			}
			ki := m.Info(ci, k)
			got, cdevs := Observe(w.Coll(readH, ci), k, ki.XNameList())
			for _, d := range cdevs {
				d.Step = r.step
				r.Devs = append(r.Devs, d)
			}
			if !got.Equal(ki.St) {
				// a document changed that the call did not address: its reads no longer return what
				// its own last mutation left (C01); across collections also an isolation failure (C11)
				props := []string{"C01"}
				if ci != c {
					props = []string{"C01", "C11"}
				}
				r.Devs = append(r.Devs, Deviation{Clause: "frame", Props: props, Step: r.step,
					Msg: fmt.Sprintf("%s on %s/%q changed another document %s/%q: was %s now %s", what, r.collName(c), key, w.Cfg.Colls[ci], k, ki.St, got),
					Sig: fmt.Sprintf("frame|%s|%v", what, ci != c)})
				m.Commit(ci, k, got, "")
			}
		}
	}
}

// Stable checks that nothing changed without a client call.
func (r *Run) Stable() {
	r.frame(-1, "", "nothing")
}

// Purge runs PurgeTombstones and checks it removed exactly the body-less keys.
func (r *Run) Purge(h int) { r.purge(h, false) }

// purge: PurgeTombstones through handle h, or (fresh) through a handle opened for the occasion that
// has not looked up any collection yet.
func (r *Run) purge(h int, fresh bool) {
	w := r.W
	m := w.Model
	pb := w.Handles[h]
	if fresh {
		if nb, oerr := rosmar.OpenBucket(w.URL, w.Name, rosmar.ReOpenExisting); oerr == nil {
			pb = nb
			defer nb.Close(ctx)
		} else {
			r.dev("purge.open", []string{"C13"}, "a further handle of the open bucket cannot be opened: %v", oerr)
		}
	}
	n, err := pb.PurgeTombstones()
	want := 0
	for ci := range m.Colls {
		if m.Colls[ci].Dropped {
			continue
		}
		for _, k := range m.Keys(ci) {
			if st := m.Get(ci, k); st.Present && st.Body == nil {
				want++
			}
		}
	}
	tr := StepTrace{Op: Op{K: "Purge", H: h}, Outcome: "purged"}
	if fresh {
		tr.Op.Amt = 1
	}
	if err != nil {
		r.dev("purge.err", []string{"C05"}, "PurgeTombstones failed: %v", err)
		tr.Outcome = "DEVIATION"
	} else if int(n) != want+r.sentinelTombs() && r.ghostWrites == 0 {
		// (after writes through data store objects of dropped collections the number of rows that
		// belong to no collection is unknown: the count is not judged)
		r.dev("purge.count", []string{"C05"}, "PurgeTombstones returned %d, model has %d body-less keys", n, want)
		tr.Outcome = "DEVIATION"
	}
	for ci := range m.Colls {
		if m.Colls[ci].Dropped {
			continue
		}
		for _, k := range m.Keys(ci) {
			ki := m.Info(ci, k)
			got, cdevs := Observe(w.Coll(h, ci), k, ki.XNameList())
			r.Devs = append(r.Devs, cdevs...)
			wantSt := ki.St
			if wantSt.Present && wantSt.Body == nil {
				wantSt = St{}
			}
			if !got.Equal(wantSt) {
				r.dev("purge.exact", []string{"C05", "C01", "C06"}, "after purge %s/%q is %s, expected %s", w.Cfg.Colls[ci], k, got, wantSt)
				tr.Outcome = "DEVIATION"
			}
			m.Commit(ci, k, got, "Purge")
		}
	}
	r.Trace = append(r.Trace, tr)
}

func (r *Run) sentinelTombs() int {
	n := len(r.sentTomb)
	r.sentTomb = nil
	return n
}

// ReopenStep closes all handles, reopens, and checks that everything reads the same.
func (r *Run) ReopenStep() {
	r.SyncFeeds()
	if err := r.W.Reopen(); err != nil {
		r.dev("reopen", []string{"C10", "C13", "C01"}, "reopen failed: %v", err)
		r.Poisoned = true
		return
	}
	r.Ghosts = nil // (their handles are closed)
	r.Trace = append(r.Trace, StepTrace{Op: Op{K: "Reopen"}, Outcome: "reopened"})
	r.frame(-1, "", "close+reopen")
}

// Signature of a run for distinctness: hash of the ⟨op, prior class, CAS class, outcome⟩ sequence.
func (r *Run) Signature() uint64 {
	h := fnv.New64a()
	for _, t := range r.Trace {
		fmt.Fprintf(h, "%s|%s|%s|%s;", opLabel(t.Op), t.Prior, t.Cas, t.Outcome)
	}
	return h.Sum64()
}

func opLabel(op Op) string {
	s := op.K
	if op.K == "WriteCas" {
		switch {
		case op.Append:
			s += ".append"
		case op.Body == nil:
			s += ".nil"
		case op.AddOnly:
			s += ".addonly"
		case op.Raw:
			s += ".raw"
		}
	}
	if op.K == "Update" || op.K == "WriteUpdateWithXattrs" {
		s += "." + op.Cb
		if op.Tomb {
			s += ".tomb"
		}
	}
	return s
}

// heldRead: what a read returned belongs to the caller: a later call must not change it.
type heldRead struct {
	what, key, prop string
	got, was        []byte
}

func (r *Run) hold(what, key, prop string, b []byte) {
	if len(b) == 0 {
		return
	}
	if len(r.heldReads) >= 6 {
		r.heldReads = r.heldReads[1:]
	}
	r.heldReads = append(r.heldReads, heldRead{what: what, key: key, prop: prop, got: b, was: append([]byte{}, b...)})
}

func (r *Run) checkHeld() {
	for i, h := range r.heldReads {
		if !bytes.Equal(h.got, h.was) {
			r.dev("read.unstable", []string{h.prop}, "the bytes %s(%q) returned were %q when it returned and are %q now: a later call changed a result the caller still holds", h.what, h.key, h.was, h.got)
			r.heldReads[i].was = append([]byte{}, h.got...)
		}
	}
}
