package h

import (
	"sort"
	"sync"
)

// Model: the last validated observation of every key of every collection, plus the per-key
// bookkeeping the generators and the oracle need (every CAS ever seen, every xattr name ever
// used, who wrote last).
type Model struct {
	Colls     []*CollModel
	AllCas    map[uint64]bool // every CAS ever observed anywhere in this world
	MaxCas    uint64
	MaxIssued uint64 // highest CAS handed out by the regular write API (excludes caller-supplied *WithMeta CAS)
	mu        sync.Mutex
}

type CollModel struct {
	Docs    map[string]*KeyInfo
	Dropped bool
}

type KeyInfo struct {
	St         St
	CasHist    []uint64        // CAS of earlier versions (oldest first), excluding the current
	PurgedCas  []uint64        // CAS values of incarnations removed by purge / drop
	XNames     map[string]bool // xattr names ever used on this key
	LastWriter string          // op kind that produced the current version
	LostBodyBy string          // op kind that last removed the body ("" if it has one / never had)
	Writers    map[string]bool // distinct op kinds that successfully mutated this key
	Deletes    map[string]bool // distinct delete paths used
	Resurrects map[string]bool // distinct resurrect paths used
	IsJSON     *bool           // datatype of current version if known
}

func NewModel(ncoll int) *Model {
	m := &Model{AllCas: map[uint64]bool{}}
	for i := 0; i < ncoll; i++ {
		m.Colls = append(m.Colls, &CollModel{Docs: map[string]*KeyInfo{}})
	}
	return m
}

func (m *Model) Info(c int, key string) *KeyInfo {
	// (concurrent lanes of a script resolve their symbolic arguments against the model: the lazy
	// insert must not race with another lane's lookup)
	m.mu.Lock()
	defer m.mu.Unlock()
	ki := m.Colls[c].Docs[key]
	if ki == nil {
		ki = &KeyInfo{XNames: map[string]bool{}, Writers: map[string]bool{}, Deletes: map[string]bool{}, Resurrects: map[string]bool{}}
		m.Colls[c].Docs[key] = ki
	}
	return ki
}

func (m *Model) Get(c int, key string) St {
	if ki := m.Colls[c].Docs[key]; ki != nil {
		return ki.St
	}
	return St{}
}

func (m *Model) Keys(c int) []string {
	keys := make([]string, 0, len(m.Colls[c].Docs))
	for k := range m.Colls[c].Docs {
		keys = append(keys, k)
	}
	sort.Strings(keys)
	return keys
}

func (ki *KeyInfo) XNameList() []string {
	names := make([]string, 0, len(ki.XNames))
	for k := range ki.XNames {
		names = append(names, k)
	}
	sort.Strings(names)
	return names
}

func (m *Model) NoteCas(cas uint64) {
	if cas == 0 {
		return
	}
	m.AllCas[cas] = true
	if cas > m.MaxCas {
		m.MaxCas = cas
	}
}

// Commit installs a newly observed state for a key and updates the bookkeeping.
func (m *Model) Commit(c int, key string, post St, writer string) {
	ki := m.Info(c, key)
	prev := ki.St
	if prev.Present && (!post.Present || post.Cas != prev.Cas) {
		if !post.Present {
			ki.PurgedCas = append(ki.PurgedCas, prev.Cas)
			ki.CasHist = nil
		} else {
			ki.CasHist = append(ki.CasHist, prev.Cas)
		}
	}
	changed := !prev.Equal(post)
	ki.St = post
	for k := range post.X {
		ki.XNames[k] = true
	}
	m.NoteCas(post.Cas)
	if changed && writer != "" {
		ki.LastWriter = writer
		ki.Writers[writer] = true
		if prev.HasBody() && !post.HasBody() {
			ki.LostBodyBy = writer
			ki.Deletes[writer] = true
		}
		if !prev.HasBody() && post.HasBody() {
			if prev.Present {
				ki.Resurrects[writer] = true
			}
			ki.LostBodyBy = ""
		}
		if post.Cas != prev.Cas || !post.Present {
			ki.IsJSON = nil
		}
	}
}
