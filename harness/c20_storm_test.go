package h

// C20, free-running part: a generated mix of client activities (key-value writers over many entry
// points, short expiries, feeds being started and stopped, view queries in every stale mode, SQL
// queries, collection listing) runs on several goroutines with seeded noise at the hook points; after
// a generated number of completed calls the bucket is shut down under them. Nothing here is held:
// the race is real, the scenario (not the interleaving) is what replays.

import (
	"fmt"
	"math/rand"
	"sync"
	"sync/atomic"
	"time"

	sgbucket "github.com/couchbase/sg-bucket"
	"github.com/couchbaselabs/rosmar"
)

var stormWorkerKinds = []string{"kv", "kv", "xattr", "expiry", "feed", "view", "query", "subdoc", "colls"}

// stormCall runs one call of the given worker kind; the error is returned only to let the worker
// notice that the bucket is gone.
func stormCall(w *World, kind string, rng *rand.Rand, h, ci int, feedDones *[]chan struct{}, mu *sync.Mutex) {
	b := w.Handles[h]
	var ds sgbucket.DataStore
	var err error
	if ci == 0 {
		ds = b.DefaultDataStore()
	} else {
		ds, err = b.NamedDataStore(dsName(w.Cfg.Colls[ci]))
	}
	if err != nil || ds == nil {
		return
	}
	if rc, ok := ds.(*rosmar.Collection); ok && rc == nil {
		return // the handle is closed: there is nothing to call
	}
	key := fmt.Sprintf("k%d", rng.Intn(4))
	body := []byte(fmt.Sprintf(`{"n":%d,"k":"%s"}`, rng.Intn(100), key))
	switch kind {
	case "kv":
		switch rng.Intn(8) {
		case 0:
			_ = ds.Set(key, 0, nil, body)
		case 1:
			_, _ = ds.Add(key, 0, body)
		case 2:
			_ = ds.Delete(key)
		case 3:
			_, _, _ = ds.GetRaw(key)
		case 4:
			_, _ = ds.Incr("ctr", 1, 1, 0)
		case 5:
			_, _ = ds.Update(key, 0, func(cur []byte) ([]byte, *uint32, bool, error) { return body, nil, false, nil })
		case 6:
			_, _ = ds.WriteCas(key, 0, 0, body, 0)
		case 7:
			_, _ = ds.Touch(key, 0)
		}
	case "xattr":
		switch rng.Intn(4) {
		case 0:
			_, _ = ds.WriteWithXattrs(ctx, key, 0, 0, body, map[string][]byte{"_x": []byte(`{"a":1}`)}, nil, nil)
		case 1:
			_, _, _, _ = ds.GetWithXattrs(ctx, key, []string{"_x"})
		case 2:
			_, _ = ds.WriteUpdateWithXattrs(ctx, key, []string{"_x"}, 0, nil, nil, func(doc []byte, xattrs map[string][]byte, cas uint64) (sgbucket.UpdatedDoc, error) {
				return sgbucket.UpdatedDoc{Doc: body, Xattrs: map[string][]byte{"_x": []byte(`{"a":2}`)}}, nil
			})
		case 3:
			_, _ = ds.WriteTombstoneWithXattrs(ctx, key, 0, 0, map[string][]byte{"_x": []byte(`{"d":1}`)}, nil, false, nil)
		}
	case "expiry":
		_ = ds.Set(fmt.Sprintf("e%d", rng.Intn(3)), nowSec()+uint32(rng.Intn(2)), nil, body)
	case "subdoc":
		if rng.Intn(2) == 0 {
			_, _ = ds.WriteSubDoc(ctx, key, "p", 0, []byte(`1`))
		} else {
			_, _, _ = ds.GetSubDocRaw(ctx, key, "n")
		}
	case "feed":
		done := make(chan struct{})
		term := make(chan bool)
		args := sgbucket.FeedArguments{ID: fmt.Sprintf("f%d", rng.Int63()), Backfill: 0, Terminator: term, DoneChan: done}
		if rng.Intn(2) == 0 {
			args.Backfill = sgbucket.FeedNoBackfill
		}
		if rng.Intn(4) == 0 {
			args.Dump = true
			args.Backfill = 0
		}
		if rng.Intn(3) == 0 {
			args.CheckpointPrefix = "cps" // the feed persists a checkpoint (a write of its own) when it ends
		}
		if err := startFeedOn(ds, args); err != nil {
			return
		}
		mu.Lock()
		*feedDones = append(*feedDones, done)
		mu.Unlock()
		if rng.Intn(2) == 0 {
			time.Sleep(time.Duration(rng.Intn(3)) * time.Millisecond)
			close(term)
		}
	case "view":
		vs, ok := ds.(sgbucket.ViewStore)
		if !ok {
			return
		}
		switch rng.Intn(6) {
		case 5:
			_ = vs.DeleteDDoc("dd")
			_ = vs.PutDDoc(ctx, "dd", designDoc(map[string]ViewSpec{"v": {Emits: []string{"id|one"}}}))
		case 0:
			_ = vs.PutDDoc(ctx, "dd", designDoc(map[string]ViewSpec{"v": {Emits: []string{"id|one"}}}))
		case 1:
			_, _ = vs.View(ctx, "dd", "v", map[string]any{"stale": false})
		case 2, 3:
			_, _ = vs.View(ctx, "dd", "v", map[string]any{"stale": "update_after"})
		case 4:
			_, _ = vs.View(ctx, "dd", "v", map[string]any{"stale": "ok"})
		}
	case "query":
		qs, ok := ds.(sgbucket.QueryableStore)
		if !ok {
			return
		}
		it, err := qs.Query(sgbucket.SQLiteLanguage, `SELECT id FROM $_keyspace`, nil, sgbucket.RequestPlus, false)
		if err == nil && it != nil {
			var row map[string]any
			for it.Next(ctx, &row) {
			}
			_ = it.Close()
		}
	case "colls":
		_, _ = b.ListDataStores()
		_, _ = b.UUID()
	}
}

func startFeedOn(ds sgbucket.DataStore, args sgbucket.FeedArguments) error {
	rc, ok := ds.(*rosmar.Collection)
	if !ok || rc == nil {
		return fmt.Errorf("no collection")
	}
	return rc.StartDCPFeed(ctx, args, func(sgbucket.FeedEvent) bool { return true }, nil)
}

// runOpenRaceScenario: an on-disk bucket with a document that expires in 2 s is closed; c.Handles
// goroutines open it at the same moment (only one instance wins the registration, the others are
// discarded), every handle is closed again at once, and the process lives on past the expiry time:
// nothing that was discarded or closed may still act.
func runOpenRaceScenario(c shutCase) (res shutResult) {
	bad := func(clause, f string, a ...any) {
		res.Devs = append(res.Devs, Deviation{Clause: clause, Props: []string{"C20"}, Sig: clause + "|openRace", Msg: fmt.Sprintf(f, a...)})
	}
	w, err := NewWorld(Config{Disk: true, Handles: 1, Colls: allCollNames[:1]})
	if err != nil {
		bad("shut.setup", "%v", err)
		return
	}
	_ = w.Coll(0, 0).Set("soon", nowSec()+2, nil, []byte(`{"v":1}`))
	w.Handles[0].Close(ctx)
	restore := noiseHook(c.Seed, w.Name)
	start := make(chan struct{})
	var wg sync.WaitGroup
	opened := make([]*rosmar.Bucket, c.Handles)
	for i := 0; i < c.Handles; i++ {
		wg.Add(1)
		go func(i int) {
			defer wg.Done()
			<-start
			b, oerr := rosmar.OpenBucket(w.URL, w.Name, rosmar.ReOpenExisting)
			if oerr == nil {
				opened[i] = b
			}
		}(i)
	}
	close(start)
	wg.Wait()
	restore()
	n := 0
	for _, b := range opened {
		if b != nil {
			n++
			b.Close(ctx)
		}
	}
	res.InFlight = n >= 2
	res.Log = append(res.Log, fmt.Sprintf("%d of %d concurrent opens succeeded; all closed again", n, c.Handles))
	// live on past the expiry time: a panic in a timer goroutine kills this process (seen by the parent)
	time.Sleep(3500 * time.Millisecond)
	if left := rosmarGoroutines(); len(left) > 0 {
		bad("shut.leak", "rosmar goroutines still running after every handle was closed: %v", left)
	}
	// the bucket is intact and the document expired (or expires) normally when it is opened again
	b, oerr := rosmar.OpenBucket(w.URL, w.Name, rosmar.ReOpenExisting)
	if oerr != nil {
		bad("shut.reopen", "the bucket cannot be opened again: %v", oerr)
		return
	}
	_ = b.CloseAndDelete(ctx)
	return
}

func runStormScenario(c shutCase) (res shutResult) {
	bad := func(clause, f string, a ...any) {
		res.Devs = append(res.Devs, Deviation{Clause: clause, Props: []string{"C20"}, Sig: clause + "|storm", Msg: fmt.Sprintf(f, a...)})
	}
	logf := func(f string, a ...any) { res.Log = append(res.Log, fmt.Sprintf(f, a...)) }
	cfg := Config{Disk: c.Disk, Handles: c.Handles, Colls: allCollNames[:2]}
	w, err := NewWorld(cfg)
	if err != nil {
		bad("shut.setup", "%v", err)
		return
	}
	other, err := NewWorld(Config{Handles: 1, Colls: allCollNames[:1]})
	if err != nil {
		bad("shut.setup", "%v", err)
		return
	}
	restore := noiseHook(c.Seed, w.Name)
	defer restore()
	if vs, ok := w.Coll(0, 0).(sgbucket.ViewStore); ok {
		_ = vs.PutDDoc(ctx, "dd", designDoc(map[string]ViewSpec{"v": {Emits: []string{"id|one"}}}))
	}
	var calls, inflight atomic.Int64
	var stop atomic.Bool
	var feedDones []chan struct{}
	var fmu sync.Mutex
	var wg sync.WaitGroup
	for wi, kind := range c.Workers {
		wg.Add(1)
		go func(wi int, kind string) {
			defer wg.Done()
			rng := rand.New(rand.NewSource(c.Seed*31 + int64(wi)))
			for !stop.Load() {
				inflight.Add(1)
				stormCall(w, kind, rng, rng.Intn(c.Handles), rng.Intn(2), &feedDones, &fmu)
				inflight.Add(-1)
				calls.Add(1)
			}
		}(wi, kind)
	}
	// wait until the generated number of calls completed (bounded)
	deadline := time.Now().Add(5 * time.Second)
	for calls.Load() < int64(c.After) && time.Now().Before(deadline) {
		time.Sleep(200 * time.Microsecond)
	}
	res.InFlight = inflight.Load() > 0
	shutDone := make(chan struct{})
	go func() {
		defer close(shutDone)
		switch c.Shutdown {
		case "CloseAndDelete":
			_ = w.Handles[len(w.Handles)-1].CloseAndDelete(ctx)
		case "Close":
			for _, b := range w.Handles {
				b.Close(ctx)
			}
		case "DropDataStore":
			_ = w.Handles[len(w.Handles)-1].DropDataStore(dsName(allCollNames[1]))
		}
	}()
	select {
	case <-shutDone:
	case <-time.After(30 * time.Second):
		bad("shut.deadlock", "%s did not return within 30 s while %d workers (%v) were calling into the bucket", c.Shutdown, len(c.Workers), c.Workers)
		return
	}
	logf("%s returned after %d calls", c.Shutdown, calls.Load())
	// let the workers run into the closed bucket for a moment, then stop them
	time.Sleep(time.Duration(20+c.After%50) * time.Millisecond)
	stop.Store(true)
	wdone := make(chan struct{})
	go func() { wg.Wait(); close(wdone) }()
	select {
	case <-wdone:
	case <-time.After(30 * time.Second):
		bad("shut.deadlock", "a client call that raced with %s never returned (workers %v)", c.Shutdown, c.Workers)
		return
	}
	restore()
	probe := make(chan error, 1)
	go func() { probe <- other.Coll(0, 0).Set("p", 0, nil, []byte(`1`)) }()
	select {
	case err := <-probe:
		if err != nil {
			bad("shut.otherbucket", "a write to an unrelated bucket failed after the shutdown: %v", err)
		}
	case <-time.After(10 * time.Second):
		bad("shut.deadlock", "a write to an unrelated bucket blocks after the shutdown: a lock was left held")
	}
	if c.Shutdown == "DropDataStore" {
		p2 := make(chan error, 1)
		go func() { p2 <- w.Coll(0, 0).Set("p", 0, nil, []byte(`1`)) }()
		select {
		case err := <-p2:
			if err != nil {
				bad("shut.survivor", "a write to the surviving collection failed after the drop: %v", err)
			}
		case <-time.After(10 * time.Second):
			bad("shut.deadlock", "a write to the surviving collection blocks after DropDataStore")
		}
		w.Close()
		other.Close()
		return
	}
	deadline = time.Now().Add(3 * time.Second)
	var left []string
	for {
		left = rosmarGoroutines()
		if len(left) == 0 || time.Now().After(deadline) {
			break
		}
		time.Sleep(50 * time.Millisecond)
	}
	if len(left) > 0 {
		bad("shut.leak", "%d rosmar goroutine(s) still running 3 s after %s: %v", len(left), c.Shutdown, left)
	}
	fmu.Lock()
	dones := append([]chan struct{}{}, feedDones...)
	fmu.Unlock()
	for i, d := range dones {
		select {
		case <-d:
		case <-time.After(3 * time.Second):
			bad("shut.feeddone", "the done channel of feed %d of %d (started by a worker) was not closed after %s", i, len(dones), c.Shutdown)
		}
		if len(res.Devs) > 0 {
			break
		}
	}
	other.Close()
	return
}

var closeRaceWorkerKinds = []string{"kv", "xattr", "view", "view", "query", "subdoc", "colls"}

// runCloseRaceScenario: the bucket stays open through a base handle; round after round a further
// handle is opened, c.Workers goroutines call into the bucket through it as fast as they can, and
// after a few (seeded) microseconds that handle is closed under them - so that, over the rounds, a
// Close lands between any two steps of a call in flight. The calls may fail; nothing may panic
// (the parent sees the child die) or block, and the bucket must stay usable through the base handle.
func runCloseRaceScenario(c shutCase) (res shutResult) {
	bad := func(clause, f string, a ...any) {
		res.Devs = append(res.Devs, Deviation{Clause: clause, Props: []string{"C20"}, Sig: clause + "|closeRace", Msg: fmt.Sprintf(f, a...)})
	}
	w, err := NewWorld(Config{Disk: c.Disk, Handles: 1, Colls: allCollNames[:2]})
	if err != nil {
		bad("shut.setup", "%v", err)
		return
	}
	if vs, ok := w.Coll(0, 0).(sgbucket.ViewStore); ok {
		_ = vs.PutDDoc(ctx, "dd", designDoc(map[string]ViewSpec{"v": {Emits: []string{"id|one"}}}))
	}
	for i := 0; i < 4; i++ {
		_ = w.Coll(0, 0).Set(fmt.Sprintf("k%d", i), 0, nil, []byte(fmt.Sprintf(`{"n":%d}`, i)))
	}
	rng := rand.New(rand.NewSource(c.Seed))
	rounds := 100 + c.After
	if c.Seed%2 == 0 {
		// half of the cases with seeded delays at the hook points (transaction begin / commit, ...):
		// fewer rounds, wider windows
		restore := noiseHook(c.Seed, w.Name)
		defer restore()
		rounds = 30 + c.After/4
	}
	if len(c.Workers) >= 3 && c.Workers[0] == "view" && c.Workers[1] == "view" && c.Workers[2] == "kv" {
		rounds = 150 + c.After // (the view mix: lock orders between design-document calls, index updates and Close)
	}
	var total atomic.Int64
	for round := 0; round < rounds; round++ {
		hx, oerr := rosmar.OpenBucket(w.URL, w.Name, rosmar.ReOpenExisting)
		if oerr != nil {
			bad("shut.reopen", "round %d: a further handle of the open bucket cannot be opened: %v", round, oerr)
			return
		}
		wx := &World{Cfg: w.Cfg, Handles: []*rosmar.Bucket{hx}, Name: w.Name, URL: w.URL}
		var stop atomic.Bool
		var wg sync.WaitGroup
		var feedDones []chan struct{}
		var fmu sync.Mutex
		for wi, kind := range c.Workers {
			wg.Add(1)
			go func(wi int, kind string) {
				defer wg.Done()
				r := rand.New(rand.NewSource(c.Seed*131 + int64(round)*17 + int64(wi)))
				for !stop.Load() {
					stormCall(wx, kind, r, 0, r.Intn(2), &feedDones, &fmu)
					total.Add(1)
				}
			}(wi, kind)
		}
		time.Sleep(time.Duration(rng.Intn(400)) * time.Microsecond)
		closed := make(chan struct{})
		go func() { hx.Close(ctx); close(closed) }()
		select {
		case <-closed:
		case <-time.After(30 * time.Second):
			bad("shut.deadlock", "round %d: Close of a handle did not return within 30 s while %v workers were calling through it", round, c.Workers)
			return
		}
		time.Sleep(time.Duration(rng.Intn(300)) * time.Microsecond)
		stop.Store(true)
		wdone := make(chan struct{})
		go func() { wg.Wait(); close(wdone) }()
		select {
		case <-wdone:
		case <-time.After(30 * time.Second):
			bad("shut.deadlock", "round %d: a call that raced with Close never returned (workers %v)", round, c.Workers)
			return
		}
	}
	res.InFlight = total.Load() > int64(rounds)
	res.Log = append(res.Log, fmt.Sprintf("%d rounds, %d calls through handles closed under them", rounds, total.Load()))
	probe := make(chan error, 1)
	go func() { probe <- w.Coll(0, 0).Set("p", 0, nil, []byte(`1`)) }()
	select {
	case err := <-probe:
		if err != nil {
			bad("shut.survivor", "a write through the handle that stayed open failed after the rounds: %v", err)
		}
	case <-time.After(10 * time.Second):
		bad("shut.deadlock", "a write through the handle that stayed open blocks: a lock was left held")
	}
	_ = w.Handles[0].CloseAndDelete(ctx)
	deadline := time.Now().Add(3 * time.Second)
	var left []string
	for {
		left = rosmarGoroutines()
		if len(left) == 0 || time.Now().After(deadline) {
			break
		}
		time.Sleep(50 * time.Millisecond)
	}
	if len(left) > 0 {
		bad("shut.leak", "%d rosmar goroutine(s) still running 3 s after CloseAndDelete: %v", len(left), left)
	}
	return
}
