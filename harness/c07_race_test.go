package h

// C07 under concurrency: "an xattr write changes exactly the named xattrs and leaves all other
// xattrs intact" also when another writer commits between the call's read and its write. Every
// worker owns one system xattr and keeps overwriting it with a counter; the others write, remove and
// delete-with-xattrs a scratch xattr on the same key. Nobody ever names another worker's xattr, so at
// the end each one must hold its owner's last acknowledged value.

import (
	"encoding/json"
	"fmt"
	"strconv"
	"sync"
	"testing"

	"pgregory.net/rapid"
)

type xraceOp struct {
	K string `json:"k"` // SetOwn | SetTmp | RemoveTmp | DelTmp | UpdTmp | SubDel
	H int    `json:"h,omitempty"`
}

type xracePlan struct {
	Disk    bool        `json:"disk"`
	Handles int         `json:"handles"`
	Workers [][]xraceOp `json:"workers"`
	Seed    int64       `json:"seed"`
}

func runXracePlan(p xracePlan) (devs []Deviation, err error) {
	w, err := NewWorld(Config{Disk: p.Disk, Handles: p.Handles, Colls: allCollNames[:1]})
	if err != nil {
		return nil, err
	}
	defer w.Close()
	const key = "doc"
	if _, e := w.Coll(0, 0).WriteWithXattrs(ctx, key, 0, 0, []byte(`{"b":1}`), map[string][]byte{"_tmp": []byte(`0`)}, nil, nil); e != nil {
		return nil, e
	}
	restore := noiseHook(p.Seed, w.Name)
	defer restore()
	last := make([]int, len(p.Workers)) // last acknowledged counter per worker (0 = never)
	var torn []string
	var panics []string
	var mu sync.Mutex
	var wg sync.WaitGroup
	for wi, ops := range p.Workers {
		wg.Add(1)
		go func(wi int, ops []xraceOp) {
			defer wg.Done()
			defer func() {
				if r := recover(); r != nil {
					mu.Lock()
					panics = append(panics, fmt.Sprint(r))
					mu.Unlock()
				}
			}()
			own := fmt.Sprintf("_w%d", wi)
			n := 0
			for oi, op := range ops {
				ds := w.Coll(op.H%p.Handles, 0)
				switch op.K {
				case "SetOwn":
					n++
					if _, e := ds.SetXattrs(ctx, key, map[string][]byte{own: []byte(strconv.Itoa(n))}); e == nil {
						last[wi] = n
					} else {
						n--
					}
				case "SetTmp":
					_, _ = ds.SetXattrs(ctx, key, map[string][]byte{"_tmp": []byte(strconv.Itoa(wi*1000 + oi))})
				case "RemoveTmp":
					_, cas, _ := ds.GetRaw(key)
					_ = ds.RemoveXattrs(ctx, key, []string{"_tmp"}, cas)
				case "UpdTmp":
					_, cas, _ := ds.GetRaw(key)
					_, _ = ds.UpdateXattrs(ctx, key, 0, cas, map[string][]byte{"_tmp": []byte(strconv.Itoa(oi))}, nil)
				case "DelTmp":
					_ = ds.DeleteWithXattrs(ctx, key, []string{"_tmp"})
				case "SubDel":
					_ = ds.DeleteSubDocPaths(ctx, key, "_tmp")
				case "PairWrite":
					// body and xattr of a second key written together, both carrying the same number
					_, cas, _ := ds.GetRaw("pair")
					v := strconv.Itoa(wi*100000 + oi)
					_, _ = ds.WriteWithXattrs(ctx, "pair", 0, cas, []byte(`{"v":`+v+`}`), map[string][]byte{"_pair": []byte(v)}, nil, nil)
				case "PairRead":
					body, xs, _, e := ds.GetWithXattrs(ctx, "pair", []string{"_pair"})
					if e == nil && body != nil {
						if want := `{"v":` + string(xs["_pair"]) + `}`; string(body) != want {
							mu.Lock()
							torn = append(torn, fmt.Sprintf("GetWithXattrs returned body %s together with _pair=%s", body, xs["_pair"]))
							mu.Unlock()
						}
					}
				}
			}
		}(wi, ops)
	}
	wg.Wait()
	restore()
	for _, pn := range panics {
		devs = append(devs, Deviation{Clause: "xrace.panic", Props: []string{"C07", "C20"}, Sig: "xrace.panic", Msg: "worker panicked: " + pn})
	}
	for _, tmsg := range torn {
		devs = append(devs, Deviation{Clause: "xrace.torn", Props: []string{"C07", "C03"}, Sig: "xrace.torn", Msg: "a call that writes body and xattr together was observed half applied: " + tmsg})
		break
	}
	names := []string{"_tmp"}
	for wi := range p.Workers {
		names = append(names, fmt.Sprintf("_w%d", wi))
	}
	st, cdevs := Observe(w.Coll(0, 0), key, names)
	devs = append(devs, cdevs...)
	for wi, want := range last {
		own := fmt.Sprintf("_w%d", wi)
		got, has := st.X[own]
		switch {
		case want == 0 && has:
			// (a refused SetXattrs that still wrote would be odd, but is not this test's subject)
		case want > 0 && (!has || got != strconv.Itoa(want)):
			devs = append(devs, Deviation{Clause: "xrace.lost", Props: []string{"C07", "C03"}, Sig: "xrace.lost",
				Msg: fmt.Sprintf("xattr %s should hold %d (its owner's last acknowledged write; nobody else ever named it) but the document has %q (present=%v): another writer's xattr write or delete changed an xattr it did not name (final state %s)", own, want, got, has, st)})
		}
	}
	return
}

func genXracePlan(rt *rapid.T) xracePlan {
	p := xracePlan{Disk: chance(rt, 40, "disk"), Handles: rapid.IntRange(1, 3).Draw(rt, "handles"), Seed: int64(rapid.IntRange(1, 1<<30).Draw(rt, "seed"))}
	nw := rapid.IntRange(2, 5).Draw(rt, "workers")
	for wi := 0; wi < nw; wi++ {
		n := rapid.IntRange(4, 30).Draw(rt, "nops")
		var ops []xraceOp
		for i := 0; i < n; i++ {
			ops = append(ops, xraceOp{K: pick(rt, []string{"SetOwn", "SetOwn", "SetOwn", "SetTmp", "RemoveTmp", "UpdTmp", "DelTmp", "DelTmp", "SubDel", "PairWrite", "PairWrite", "PairRead", "PairRead"}, "k"), H: rapid.IntRange(0, p.Handles-1).Draw(rt, "h")})
		}
		p.Workers = append(p.Workers, ops)
	}
	return p
}

func TestC07Race(t *testing.T) {
	st := statsFor("C07", "TestC07Race")
	st.Rule = "generated plans of 2-5 goroutines x 4-30 xattr operations on one document through 1-3 handles (memory / disk), free-running with seeded noise at the hook points: every goroutine keeps overwriting a system xattr of its own with a counter (SetXattrs) and writes / removes / deletes-with-xattrs (SetXattrs, UpdateXattrs, RemoveXattrs, DeleteWithXattrs, DeleteSubDocPaths) a shared scratch xattr; a second key is written body+xattr together (same number in both) and read with GetWithXattrs, which must never see the two apart; no call ever names another goroutine's xattr, so at the end each of them holds its owner's last acknowledged value; non-trivial = at least 3 goroutines; distinct by plan"
	if replayMode() {
		rp := loadReplay("TestC07Race")
		if rp == nil {
			t.Skip("replay file is for another test")
		}
		var p xracePlan
		if err := json.Unmarshal(rp.Extra, &p); err != nil {
			t.Fatal(err)
		}
		for i := 0; i < 40; i++ { // schedules are not reproducible: run the plan repeatedly
			p.Seed += int64(i)
			devs, err := runXracePlan(p)
			if err != nil {
				t.Fatalf("infrastructure: %v", err)
			}
			if len(devs) > 0 {
				t.Fatalf("property C07 violated by replay (attempt %d):%s", i, devText(devs))
			}
		}
		st.Case(1, true, func() any { return p })
		return
	}
	var once sync.Once
	rapid.Check(t, func(rt *rapid.T) {
		p := genXracePlan(rt)
		devs, err := runXracePlan(p)
		if err != nil {
			rt.Fatalf("INFRA: %v", err)
		}
		b, _ := json.Marshal(p)
		st.Case(fnvString(string(b)), len(p.Workers) >= 3, func() any { return p })
		var ds []Deviation
		for _, d := range devs {
			if !d.Has("C07") {
				continue
			}
			if id, ok := tolerated("C07", d); ok {
				st.KnownHits[id]++
				continue
			}
			ds = append(ds, d)
		}
		if len(ds) > 0 {
			once.Do(func() {
				saveReplay(&Replay{Property: "C07", Test: "TestC07Race", Extra: b, Expect: ds})
				st.Violations++
			})
			rt.Fatalf("property C07 violated (replay %s):%s", replayPath("C07", "TestC07Race"), devText(ds))
		}
	})
}
