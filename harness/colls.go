package h

// C11: collection drop / re-creation steps, a passive twin bucket, and isolation probes.

import (
	"fmt"
	"sort"
	"strings"
	"time"

	sgbucket "github.com/couchbase/sg-bucket"
	"pgregory.net/rapid"
)

func init() {
	pseudoHandlers["DropColl"] = func(r *Run, op Op) { r.DropCollStep(op) }
	pseudoHandlers["CreateColl"] = func(r *Run, op Op) { r.CreateCollStep(op) }
	pseudoHandlers["GhostWrite"] = func(r *Run, op Op) { r.GhostWriteStep(op) }
}

func (r *Run) listColls(h int) ([]string, error) {
	names, err := r.W.Handles[h].ListDataStores()
	if err != nil {
		return nil, err
	}
	var out []string
	for _, n := range names {
		out = append(out, n.ScopeName()+"."+n.CollectionName())
	}
	sort.Strings(out)
	return out, nil
}

func (r *Run) wantColls() []string {
	var out []string
	for i, n := range r.W.Cfg.Colls {
		if !r.W.Model.Colls[i].Dropped {
			out = append(out, n)
		}
	}
	sort.Strings(out)
	return out
}

// DropCollStep drops collection op.C through handle op.H.
func (r *Run) DropCollStep(op Op) {
	w := r.W
	c11 := []string{"C11"}
	tr := StepTrace{Op: op, Outcome: "dropped"}
	defer func() { r.Trace = append(r.Trace, tr) }()
	nDev := len(r.Devs)
	defer func() {
		if len(r.Devs) > nDev {
			tr.Outcome = "DEVIATION"
		}
	}()
	if w.Model.Colls[op.C].Dropped {
		tr.Outcome = "already-dropped"
		return
	}
	r.SyncFeeds()
	var gh ghost
	if op.C != 0 {
		gh = ghost{C: op.C}
		for h := range w.Handles {
			gh.DS = append(gh.DS, w.Coll(h, op.C))
		}
	}
	err := w.Handles[op.H].DropDataStore(dsName(w.Cfg.Colls[op.C]))
	if op.C == 0 {
		if err == nil {
			r.dev("drop.default", c11, "dropping the default collection succeeded")
		}
		tr.Outcome = "refused"
		return
	}
	if err != nil {
		r.dev("drop.err", c11, "DropDataStore(%s) failed: %v", w.Cfg.Colls[op.C], err)
		return
	}
	r.DropHappened = true
	r.Ghosts = append(r.Ghosts, gh)
	w.Model.Colls[op.C].Dropped = true
	for h := range w.colls {
		w.colls[h][op.C] = nil
	}
	for _, ki := range w.Model.Colls[op.C].Docs {
		if ki.St.Present {
			ki.PurgedCas = append(ki.PurgedCas, ki.St.Cas)
		}
		ki.St = St{}
		ki.CasHist = nil
		ki.IsJSON = nil
	}
	delete(r.DDocs, op.C)
	if got, err := r.listColls(op.H); err != nil || strings.Join(got, ",") != strings.Join(r.wantColls(), ",") {
		r.dev("drop.list", c11, "after dropping %s ListDataStores = %v (err %v), expected %v", w.Cfg.Colls[op.C], got, err, r.wantColls())
	}
	// feeds of the dropped collection end; feeds covering several collections keep running
	for fi, f := range w.Feeds {
		if len(f.colls) == 1 && f.colls[0] == op.C {
			select {
			case <-f.done:
			case <-time.After(10 * time.Second):
				r.dev("drop.feed", []string{"C11", "C16"}, "feed %d on the dropped collection did not end", fi)
			}
		}
	}
	var keep []*Collector
	for _, f := range w.Feeds {
		if len(f.colls) == 1 && f.colls[0] == op.C {
			continue
		}
		// a multi-collection feed loses this collection for good (a re-created collection is a new one)
		var cs []int
		for _, x := range f.colls {
			if x != op.C {
				cs = append(cs, x)
			}
		}
		f.colls = cs
		keep = append(keep, f)
	}
	w.Feeds = keep
	r.frame(-1, "", "DropDataStore("+w.Cfg.Colls[op.C]+")")
	r.isoProbeAll("DropDataStore")
}

// CreateCollStep re-creates a dropped collection; it must come back empty.
func (r *Run) CreateCollStep(op Op) {
	w := r.W
	c11 := []string{"C11"}
	tr := StepTrace{Op: op, Outcome: "created"}
	defer func() { r.Trace = append(r.Trace, tr) }()
	nDev := len(r.Devs)
	defer func() {
		if len(r.Devs) > nDev {
			tr.Outcome = "DEVIATION"
		}
	}()
	if !w.Model.Colls[op.C].Dropped {
		tr.Outcome = "exists"
		return // (only reachable in minimised replays)
	}
	if err := w.Handles[op.H].CreateDataStore(ctx, dsName(w.Cfg.Colls[op.C])); err != nil {
		r.dev("create.err", c11, "CreateDataStore(%s) failed: %v", w.Cfg.Colls[op.C], err)
		return
	}
	w.Model.Colls[op.C].Dropped = false
	if len(w.Cfg.Feeds) > 0 {
		// worlds with feeds keep one on every collection (the view oracle learns each version's
		// datatype from its live event)
		if c, err := w.StartLiveFeed(FeedCfg{H: 0, C: op.C}); err == nil {
			w.Feeds = append(w.Feeds, c)
		} else {
			r.dev("create.feed", c11, "StartDCPFeed on the newly created %s failed: %v", w.Cfg.Colls[op.C], err)
		}
	}
	if got, err := r.listColls(op.H); err != nil || strings.Join(got, ",") != strings.Join(r.wantColls(), ",") {
		r.dev("create.list", c11, "after re-creating %s ListDataStores = %v (err %v), expected %v", w.Cfg.Colls[op.C], got, err, r.wantColls())
	}
	// every key ever used there is gone
	for h := range w.Handles {
		for _, k := range w.Model.Keys(op.C) {
			ki := w.Model.Info(op.C, k)
			got, _ := Observe(w.Coll(h, op.C), k, ki.XNameList())
			if got.Present {
				r.dev("create.empty", c11, "re-created collection %s still has %q: %s (through handle %d)", w.Cfg.Colls[op.C], k, got, h)
			}
		}
	}
	if dd, err := w.Coll(op.H, op.C).(sgbucket.ViewStore).GetDDocs(); err != nil || len(dd) != 0 {
		r.dev("create.ddocs", c11, "re-created collection %s has design docs %v (err %v)", w.Cfg.Colls[op.C], dd, err)
	}
	rows, err := runQuery(w.Coll(op.H, op.C), QueryOp{Kind: "all", Iter: "bytes"})
	if err != nil || len(rows) != 0 {
		r.dev("create.query", c11, "re-created collection %s: query returns %d rows (err %v)", w.Cfg.Colls[op.C], len(rows), err)
	}
	r.frame(-1, "", "CreateDataStore("+w.Cfg.Colls[op.C]+")")
	r.isoProbe(op.C, "CreateDataStore")
}

// ghost: the data store objects a client obtained for a collection before it was dropped.
type ghost struct {
	C  int
	DS []sgbucket.DataStore // per handle
}

// GhostWriteStep uses a data store object of a dropped collection (obtained before the drop). What
// the call itself returns is a don't-care; it is addressed to a collection that no longer exists,
// so no existing collection (and no other bucket) may change. Only done while no collection of
// that name exists again (whether such an object follows a re-creation is left open).
func (r *Run) GhostWriteStep(op Op) {
	w := r.W
	tr := StepTrace{Op: op, Outcome: "ghost"}
	defer func() { r.Trace = append(r.Trace, tr) }()
	gi, _ := op.Arg["g"].(float64)
	if gx, ok := op.Arg["g"].(int); ok {
		gi = float64(gx)
	}
	if len(r.Ghosts) == 0 {
		tr.Outcome = "no-ghost"
		return
	}
	g := r.Ghosts[int(gi)%len(r.Ghosts)]
	if !w.Model.Colls[g.C].Dropped {
		tr.Outcome = "re-created"
		return
	}
	r.SyncFeeds()
	r.ghostWrites++
	ds := g.DS[op.H%len(g.DS)]
	what, _ := op.Arg["what"].(string)
	nDev := len(r.Devs)
	p := safely(func() {
		switch what {
		case "Set":
			_ = ds.Set(op.Key, 0, nil, []byte(`{"ghost":1}`))
		case "SetExp":
			_ = ds.Set(op.Key, nowSec()+3600, nil, []byte(`{"ghost":2}`))
		case "Delete":
			_ = ds.Delete(op.Key)
		case "Touch":
			_, _ = ds.Touch(op.Key, nowSec()+1800)
		case "Add":
			_, _ = ds.Add(op.Key, 0, []byte(`{"ghost":3}`))
		case "WriteCasCur":
			// with the CAS the key currently has in some existing collection
			var cas uint64
			for ci := range w.Cfg.Colls {
				if !w.Model.Colls[ci].Dropped {
					if st := w.Model.Get(ci, op.Key); st.Present {
						cas = st.Cas
					}
				}
			}
			_, _ = ds.WriteCas(op.Key, 0, cas, []byte(`{"ghost":4}`), 0)
		case "WriteWithXattrs":
			_, _ = ds.WriteWithXattrs(ctx, op.Key, 0, 0, []byte(`{"ghost":5}`), map[string][]byte{"_sync": []byte(`{"g":1}`)}, nil, nil)
		case "Incr":
			_, _ = ds.Incr(op.Key, 1, 1, 0)
		case "Update":
			_, _ = ds.Update(op.Key, 0, func(cur []byte) ([]byte, *uint32, bool, error) { return []byte(`{"ghost":6}`), nil, false, nil })
		}
	})
	if p != "" {
		r.dev("ghost.panic", []string{"C11", "C20"}, "%s through a data store object of the dropped collection %s panicked: %s", what, w.Cfg.Colls[g.C], p)
	}
	r.frame(-1, "", what+" through a data store object of the dropped collection "+w.Cfg.Colls[g.C])
	r.isoProbeAll("ghost " + what)
	if len(r.Devs) > nDev {
		tr.Outcome = "DEVIATION"
	}
}

var ghostWhats = []string{"Set", "SetExp", "Delete", "Touch", "Add", "WriteCasCur", "WriteWithXattrs", "Incr", "Update"}

func genGhostWrite(rt *rapid.T, r *Run) (Op, bool) {
	var cands []int
	for gi, g := range r.Ghosts {
		if r.W.Model.Colls[g.C].Dropped {
			cands = append(cands, gi)
		}
	}
	if len(cands) == 0 {
		return Op{}, false
	}
	keys := map[string]bool{}
	for ci := range r.W.Cfg.Colls {
		for _, k := range r.W.Model.Keys(ci) {
			keys[k] = true
		}
	}
	var ks []string
	for k := range keys {
		ks = append(ks, k)
	}
	sort.Strings(ks)
	if len(ks) == 0 {
		ks = []string{"a"}
	}
	op := Op{K: "GhostWrite", Key: pick(rt, ks, "ghost.key"), Arg: map[string]any{"g": pick(rt, cands, "ghost.g"), "what": pick(rt, ghostWhats, "ghost.what")}}
	if len(r.W.Handles) > 1 {
		op.H = rapid.IntRange(0, len(r.W.Handles)-1).Draw(rt, "ghost.h")
	}
	return op, true
}

func genDropColl(rt *rapid.T, r *Run) (Op, bool) {
	var cands []int
	for i := range r.W.Cfg.Colls {
		if i > 0 && !r.W.Model.Colls[i].Dropped {
			cands = append(cands, i)
		}
	}
	if chance(rt, 5, "drop.default") {
		cands = append(cands, 0)
	}
	if len(cands) == 0 {
		return Op{}, false
	}
	op := Op{K: "DropColl", C: pick(rt, cands, "drop.c")}
	if len(r.W.Handles) > 1 {
		op.H = rapid.IntRange(0, len(r.W.Handles)-1).Draw(rt, "drop.h")
	}
	return op, true
}

func genCreateColl(rt *rapid.T, r *Run) (Op, bool) {
	var cands []int
	for i := range r.W.Cfg.Colls {
		if r.W.Model.Colls[i].Dropped {
			cands = append(cands, i)
		}
	}
	if len(cands) == 0 {
		return Op{}, false
	}
	op := Op{K: "CreateColl", C: pick(rt, cands, "create.c")}
	if len(r.W.Handles) > 1 {
		op.H = rapid.IntRange(0, len(r.W.Handles)-1).Draw(rt, "create.h")
	}
	return op, true
}

// ---- isolation probes -------------------------------------------------------------------------
// For every collection the run remembers what its queries, views and design-doc listing returned
// after the last step that addressed it. After a step addressed elsewhere they must be identical.

func (r *Run) probe(ci int) string {
	w := r.W
	var b strings.Builder
	rows, err := runQuery(w.Coll(0, ci), QueryOp{Kind: "all", Order: true, Iter: "bytes"})
	fmt.Fprintf(&b, "query err=%v rows=", err)
	for _, row := range rows {
		if strings.Contains(string(row), sentinelPrefix) {
			continue
		}
		b.Write(row)
		b.WriteByte(';')
	}
	vs := w.Coll(0, ci).(sgbucket.ViewStore)
	dds := r.ddocs(ci)
	names := make([]string, 0, len(dds))
	for n := range dds {
		names = append(names, n)
	}
	sort.Strings(names)
	for _, dd := range names {
		vn := make([]string, 0)
		for v := range dds[dd] {
			vn = append(vn, v)
		}
		sort.Strings(vn)
		for _, v := range vn {
			res, err := vs.View(ctx, dd, v, map[string]any{"stale": false, "reduce": false})
			fmt.Fprintf(&b, "|view %s/%s err=%v %v", dd, v, err, normRows(gotRows(res)))
		}
	}
	got, err := vs.GetDDocs()
	var ddn []string
	for k := range got {
		ddn = append(ddn, k)
	}
	sort.Strings(ddn)
	fmt.Fprintf(&b, "|ddocs err=%v %v", err, ddn)
	return b.String()
}

// isoProbe is called after a step addressed to collection c (or -1): every other collection must
// answer its probe exactly as before; c's own probe is refreshed.
func (r *Run) isoProbe(c int, what string) {
	if !r.IsoProbes {
		return
	}
	if r.probes == nil {
		r.probes = map[int]string{}
	}
	for ci := range r.W.Cfg.Colls {
		if r.W.Model.Colls[ci].Dropped {
			delete(r.probes, ci)
			continue
		}
		now := r.probe(ci)
		if prev, ok := r.probes[ci]; ok && ci != c && c != -2 && prev != now {
			r.Devs = append(r.Devs, Deviation{Clause: "iso.probe", Props: []string{"C11"}, Step: r.step,
				Msg: fmt.Sprintf("%s addressed to %s changed what queries / views / design docs of %s return:\n   before: %.400s\n   after:  %.400s", what, r.collName(c), r.W.Cfg.Colls[ci], prev, now),
				Sig: "iso.probe|" + what})
		}
		r.probes[ci] = now
	}
}

func (r *Run) isoProbeAll(what string) { r.isoProbe(-1, what) }

func (r *Run) collName(c int) string {
	if c < 0 || c >= len(r.W.Cfg.Colls) {
		return "(the bucket)"
	}
	return r.W.Cfg.Colls[c]
}

// ---- twin bucket ------------------------------------------------------------------------------

// SetupTwin opens a second bucket with the same collection and key names, fills it, and records
// its state; twinCheck then verifies after every step that nothing addressed to the first bucket
// changed it.
func (r *Run) SetupTwin(keys []string) error {
	cfg := Config{Disk: r.W.Cfg.Disk, Handles: 1, Colls: append([]string{}, r.W.Cfg.Colls...)}
	tw, err := NewWorld(cfg)
	if err != nil {
		return err
	}
	r.Twin = tw
	r.twinState = map[string]St{}
	for ci := range cfg.Colls {
		ds := tw.Coll(0, ci)
		for i, k := range keys {
			var err error
			switch i % 3 {
			case 0:
				_, err = ds.WriteWithXattrs(ctx, k, 0, 0, []byte(fmt.Sprintf(`{"twin":%d,"k":"a","type":"t1"}`, ci)), map[string][]byte{"_sync": []byte(`{"seq":5}`)}, nil, nil)
			case 1:
				err = ds.Set(k, nowSec()+7200, nil, []byte(`{"twin":true,"n":3}`))
			case 2:
				err = ds.Set(k, 0, nil, []byte(`{"gone":1}`))
				if err == nil {
					err = ds.Delete(k)
				}
			}
			if err != nil {
				return err
			}
		}
	}
	for ci := range cfg.Colls {
		for _, k := range keys {
			st, _ := Observe(tw.Coll(0, ci), k, []string{"_sync", "_vv", "_mou", "user", "u2"})
			r.twinState[fmt.Sprintf("%d/%s", ci, k)] = st
		}
	}
	return nil
}

func (r *Run) twinCheck(what string) {
	if r.Twin == nil {
		return
	}
	for id, want := range r.twinState {
		var ci int
		var k string
		fmt.Sscanf(id, "%d/", &ci)
		k = id[strings.IndexByte(id, '/')+1:]
		got, _ := Observe(r.Twin.Coll(0, ci), k, []string{"_sync", "_vv", "_mou", "user", "u2"})
		if !got.Equal(want) {
			r.Devs = append(r.Devs, Deviation{Clause: "twin", Props: []string{"C11"}, Step: r.step,
				Msg: fmt.Sprintf("%s on bucket %s changed %s/%q of another bucket (%s): was %s now %s", what, r.W.Name, r.Twin.Cfg.Colls[ci], k, r.Twin.Name, want, got), Sig: "twin|" + what})
			r.twinState[id] = got
		}
	}
}

// Close releases everything the run opened.
func (r *Run) Close() {
	r.closeIters()
	if r.Twin != nil {
		r.Twin.Close()
	}
	r.W.Close()
}
