package h

import (
	"testing"

	"pgregory.net/rapid"
)

// C11 — collections (and buckets) are isolated from one another.
func TestC11(t *testing.T) {
	keys := []string{"a", "b", "c"}
	pr := viewProfile()
	pr.Keys = keys
	pr.Ops = scale(allDocOps, map[string]int{"Touch": 6, "GetAndTouchRaw": 5, "Set": 8, "Delete": 7, "WriteWithXattrs": 7, "DeleteWithXattrs": 4,
		"SetXattrs": 5, "RemoveXattrs": 3, "DeleteSubDocPaths": 3, "SetWithMeta": 3, "DeleteWithMeta": 2, "Incr": 3, "Update": 5})
	pr.Purge, pr.Reopen, pr.Backfill, pr.Sync = 3, 1, 2, 3
	pr.ExpW = map[string]int{"zero": 40, "rel": 30, "abs": 30}
	pr.Config = func(rt *rapid.T, c *Config) {
		n := rapid.IntRange(2, 3).Draw(rt, "c11.ncoll")
		c.Colls = append([]string{}, allCollNames[:n]...)
		c.MaxDocSize = 0
		if n < len(allCollNames) && chance(rt, 50, "c11.late") {
			// one more collection name that does not exist yet: CreateColl can create it after a drop
			c.Colls = append(c.Colls, allCollNames[n])
			c.Late = 1
		}
		// a feed per collection plus sometimes a multi-collection one
		c.Feeds = nil
		for i := 0; i < n; i++ {
			c.Feeds = append(c.Feeds, FeedCfg{H: rapid.IntRange(0, c.Handles-1).Draw(rt, "c11.feedh"), C: i})
		}
		if chance(rt, 40, "c11.multi") {
			c.Feeds = append(c.Feeds, FeedCfg{H: 0, Multi: true})
		}
	}
	// (*WithMeta writes are invisible to view indexing - known finding K01 of C12 - which would show
	// up here as a view of the *written* collection changing later, when something else bumps it)
	excluded := 0
	pr.Exclude = func(op Op, p St, ki *KeyInfo) bool {
		return excludedBy("C11", op, p, ki) || excludedBy("C12", op, p, ki)
	}
	pr.Excluded = &excluded
	pr.Setup = func(r *Run) {
		r.IsoProbes = true
		if err := r.SetupTwin(keys); err != nil {
			panic(err)
		}
	}
	// half of the histories start with the same design document in every collection, a document
	// under the same key in each, and every view indexed: what one collection's index holds is then
	// one wrong conjunct away from another collection's query
	pr.Prefix = func(rt *rapid.T, r *Run) []Op {
		if !chance(rt, 50, "c11.samedd") {
			return nil
		}
		spec := ViewSpec{Emits: []string{"k|id"}}
		if chance(rt, 40, "c11.ddgen") {
			spec = genViewSpec(rt)
		}
		var ops []Op
		for ci := range r.W.Cfg.Colls {
			if r.W.Model.Colls[ci].Dropped {
				continue
			}
			ops = append(ops, Op{K: "PutDDoc", C: ci, View: &ViewOp{DDoc: ddocNames[0], Specs: map[string]ViewSpec{viewNames[0]: spec}}})
			for _, k := range keys[:2] {
				ops = append(ops, Op{K: "Set", C: ci, Key: k, Body: genViewBody(rt), Exp: ExpSpec{Kind: "zero"}, NilOpts: true})
			}
		}
		for ci := range r.W.Cfg.Colls {
			if !r.W.Model.Colls[ci].Dropped {
				ops = append(ops, Op{K: "View", C: ci, View: &ViewOp{DDoc: ddocNames[0], Name: viewNames[0], Q: &ViewQuery{}}})
			}
		}
		return ops
	}
	pr.Extra = append(pr.Extra,
		ExtraAction{Name: "Query", Weight: 4, Gen: genQuery},
		ExtraAction{Name: "DropColl", Weight: 2, Gen: genDropColl},
		ExtraAction{Name: "CreateColl", Weight: 2, Gen: genCreateColl},
		ExtraAction{Name: "GhostWrite", Weight: 3, Gen: genGhostWrite},
		ExtraAction{Name: "CpDump", Weight: 3, Gen: genCpDump},
	)
	seqProperty(t, "C11", "TestC11", pr, 800,
		"rapid histories spread over 2-3 collections with identical key names, next to a second bucket with the same collection and key names; all entry points incl. Touch / GetAndTouchRaw, expiries, PurgeTombstones, design documents + view queries, SQL queries, per-collection and multi-collection feeds, DropDataStore and re-creation; after every step every key of every other collection and of the other bucket must read back identical, the other collections' query / view / design-doc probes must return the same bytes, and their feeds must have received nothing; non-trivial = a mutating step whose key exists in at least two collections in different states at that moment, in a history that also queries a view or drops a collection; distinct by <op, prior class, CAS class, outcome> sequence",
		func(r *Run) bool {
			shared, probe := false, false
			for _, tr := range r.Trace {
				if tr.Op.K == "View" || tr.Op.K == "DropColl" || tr.Op.K == "Query" {
					probe = true
				}
				if tr.Op.K == "iso-shared" {
					shared = true
				}
			}
			return (shared || r.SharedKeyOps > 0) && probe
		})
}
