package h

// C13 — bucket handle lifecycle: open modes, sharing, reference counting and deletion.

import (
	"encoding/json"
	"fmt"
	sgbucket "github.com/couchbase/sg-bucket"
	"os"
	"path/filepath"
	"sort"
	"strings"
	"sync"
	"testing"
	"time"

	"github.com/couchbaselabs/rosmar"
	"pgregory.net/rapid"
)

// registry model ---------------------------------------------------------------------------------

type lcHandle struct {
	b      *rosmar.Bucket
	name   string
	inc    int                // incarnation of the name's store this handle belongs to
	closed bool               // Close was called on it
	ds     sgbucket.DataStore // default data store obtained right after the open
}

type lcStore struct {
	url      string
	urlKind  string
	disk     bool
	inc      int
	open     int               // handles open on the current incarnation
	loaded   bool              // registered (disk: some handle open; memory: data exists)
	contents map[string]string // what probes wrote
}

type lcWorld struct {
	root    string
	tag     string
	handles []*lcHandle
	stores  map[string]*lcStore          // by bucket name: the currently loaded store (nil if none)
	onDisk  map[string]map[string]string // url -> persisted contents of an on-disk bucket that exists
	incs    int
	devs    []Deviation
	step    int
	trace   []string
	multi   int // steps executed while >= 2 handles were open on one name
}

func (w *lcWorld) bad(clause, f string, a ...any) {
	w.devs = append(w.devs, Deviation{Clause: clause, Props: []string{"C13"}, Step: w.step, Msg: fmt.Sprintf(f, a...), Sig: clause})
}

func (w *lcWorld) url(kind, name string) string {
	if kind == "mem" {
		return rosmar.InMemoryURL
	}
	if kind == "mem2" {
		// another spelling of "in memory": a path plus mode=memory
		return "rosmar://" + filepath.Join(w.root, "m2") + "?mode=memory"
	}
	if kind == "mem3" {
		// ... whose path is the directory where the on-disk bucket of the first name at "d1" lives:
		// an in-memory bucket has no business with what is stored there
		return "rosmar://" + filepath.Join(w.root, "d1", lcNames[0]) + "?mode=memory"
	}
	return "rosmar://" + filepath.Join(w.root, kind, name)
}

func (w *lcWorld) bucketName(n string) string { return w.tag + n }

func safely(f func()) (panicked string) {
	defer func() {
		if r := recover(); r != nil {
			panicked = fmt.Sprint(r)
		}
	}()
	f()
	return ""
}

var lcModes = []rosmar.OpenMode{rosmar.CreateOrOpen, rosmar.CreateNew, rosmar.ReOpenExisting}

// doOpen: OpenBucket(url(kind), name, mode).
func (w *lcWorld) doOpen(name, kind string, mode int) {
	url := w.url(kind, name)
	if !isMemKind(kind) {
		_ = os.MkdirAll(filepath.Join(w.root, kind), 0700)
	}
	var b *rosmar.Bucket
	var err error
	if p := safely(func() { b, err = rosmar.OpenBucket(url, w.bucketName(name), lcModes[mode]) }); p != "" {
		w.bad("open.panic", "OpenBucket(%s,%s,mode %d) panicked: %s", kind, name, mode, p)
		return
	}
	st := w.stores[name]
	_, exists := w.onDisk[url]
	var wantOK bool
	var why string
	switch {
	case st != nil && st.loaded:
		switch {
		case mode == 1:
			wantOK, why = false, "CreateNew on a bucket that exists"
		case st.urlKind != kind:
			wantOK, why = false, "name already open at another URL"
		default:
			wantOK = true
		}
	case isMemKind(kind):
		wantOK, why = mode != 2, "ReOpenExisting on a missing in-memory bucket"
	default:
		switch mode {
		case 1:
			wantOK, why = !exists, "CreateNew on an existing directory"
		case 2:
			wantOK, why = exists, "ReOpenExisting on a missing bucket"
		default:
			wantOK = true
		}
	}
	w.trace = append(w.trace, fmt.Sprintf("Open(%s,%s,mode=%d) -> ok=%v", name, kind, mode, err == nil))
	if (err == nil) != wantOK {
		w.bad("open.mode", "OpenBucket(%s at %s, mode %d): err=%v, expected success=%v (%s)", name, kind, mode, err, wantOK, why)
	}
	if err != nil {
		return
	}
	if st == nil || !st.loaded {
		w.incs++
		st = &lcStore{url: url, urlKind: kind, disk: !isMemKind(kind), inc: w.incs, loaded: true, contents: map[string]string{}}
		if !isMemKind(kind) {
			if persisted, ok := w.onDisk[url]; ok {
				for k, v := range persisted {
					st.contents[k] = v
				}
			}
			w.onDisk[url] = st.contents
		}
		w.stores[name] = st
	}
	st.open++
	nh := &lcHandle{b: b, name: name, inc: st.inc}
	safely(func() { nh.ds = b.DefaultDataStore() }) // kept: "later calls" include calls on data stores obtained earlier
	w.handles = append(w.handles, nh)
}

func (w *lcWorld) doClose(i int) {
	h := w.handles[i]
	st := w.stores[h.name]
	current := st != nil && st.inc == h.inc
	if p := safely(func() { h.b.Close(ctx) }); p != "" {
		w.bad("close.panic", "Close panicked: %s", p)
	}
	w.trace = append(w.trace, fmt.Sprintf("Close(h%d %s) alreadyClosed=%v", i, h.name, h.closed))
	if h.closed {
		return // closing twice changes nothing
	}
	h.closed = true
	if current {
		st.open--
		if st.open == 0 && st.disk {
			st.loaded = false // last handle of an on-disk bucket: the store is shut, the data stays on disk
		}
	}
}

func (w *lcWorld) doCloseAndDelete(i int) {
	h := w.handles[i]
	st := w.stores[h.name]
	var err error
	if p := safely(func() { err = h.b.CloseAndDelete(ctx) }); p != "" {
		w.bad("delete.panic", "CloseAndDelete panicked: %s", p)
	}
	w.trace = append(w.trace, fmt.Sprintf("CloseAndDelete(h%d %s) err=%v", i, h.name, err))
	if err != nil {
		w.bad("delete.err", "CloseAndDelete(h%d) failed: %v", i, err)
	}
	h.closed = true
	if st != nil && st.inc == h.inc {
		delete(w.onDisk, st.url)
		delete(w.stores, h.name)
		st.loaded = false
		st.inc = -1 // every handle of that incarnation is now dead
	}
}

var probeSerial int

// probe: a write and a read on every handle ever returned.
func (w *lcWorld) probe() {
	multi := false
	for _, st := range w.stores {
		if st.loaded && st.open >= 2 {
			multi = true
		}
	}
	if multi {
		w.multi++
	}
	for i, h := range w.handles {
		st := w.stores[h.name]
		live := st != nil && st.inc == h.inc && st.loaded && !h.closed
		probeSerial++
		key := fmt.Sprintf("p%d", i)
		val := fmt.Sprintf(`{"n":%d}`, probeSerial)
		var werr, rerr error
		var got []byte
		if p := safely(func() {
			ds := h.b.DefaultDataStore()
			if ds == nil {
				// DefaultDataStore cannot return an error; nil is how a closed handle refuses
				werr = rosmar.ErrBucketClosed
				if !h.closed {
					werr = fmt.Errorf("DefaultDataStore returned nil")
				}
				rerr = werr
				return
			}
			werr = ds.SetRaw(key, 0, nil, []byte(val))
			got, _, rerr = ds.GetRaw(key)
		}); p != "" {
			w.bad("probe.panic", "probe on handle %d (%s, live=%v closed=%v) panicked: %s", i, h.name, live, h.closed, p)
			continue
		}
		switch {
		case live:
			if werr != nil || rerr != nil {
				w.bad("probe.open", "handle %d of %s is open but its probe failed: write err=%v, read err=%v", i, h.name, werr, rerr)
				continue
			}
			if string(got) != val {
				w.bad("probe.data", "handle %d read %q after writing %q", i, got, val)
			}
			st.contents[key] = val
		case h.closed && st != nil && st.inc == h.inc:
			// closed handle of a store that still exists: must fail with the bucket-closed error
			if werr == nil || rerr == nil {
				w.bad("probe.closed", "handle %d of %s was closed but its probe succeeded (write err=%v read err=%v)", i, h.name, werr, rerr)
			} else if errClass(werr) != "closed" || errClass(rerr) != "closed" {
				w.bad("probe.closed.err", "closed handle %d of %s failed with %v / %v instead of the bucket-closed error", i, h.name, werr, rerr)
			}
			// ... and so must a data store object that was obtained from it while it was open
			if h.ds != nil {
				var e1, e2 error
				if p := safely(func() {
					e1 = h.ds.SetRaw(key, 0, nil, []byte(val))
					_, _, e2 = h.ds.GetRaw(key)
				}); p != "" {
					w.bad("probe.panic", "a call on a data store of the closed handle %d panicked: %s", i, p)
				} else if e1 == nil || e2 == nil {
					w.bad("probe.closed", "handle %d of %s was closed but calls on a data store obtained from it earlier still succeed (write err=%v read err=%v)", i, h.name, e1, e2)
				}
			}
		default:
			// handle of a deleted store (or of a shut on-disk store): any error, but it must not work
			if werr == nil && rerr == nil && string(got) == val {
				// writes after deletion going somewhere would be surprising, but DESIGN 2.2 leaves it open
			}
		}
	}
	// shared store: every open handle sees everything written through any handle
	for i, h := range w.handles {
		st := w.stores[h.name]
		if st == nil || st.inc != h.inc || !st.loaded || h.closed {
			continue
		}
		keys := make([]string, 0, len(st.contents))
		for k := range st.contents {
			keys = append(keys, k)
		}
		sort.Strings(keys)
		for _, k := range keys {
			var got []byte
			var err error
			if p := safely(func() { got, _, err = h.b.DefaultDataStore().GetRaw(k) }); p != "" {
				w.bad("probe.panic", "read through handle %d panicked: %s", i, p)
				break
			}
			if err != nil || string(got) != st.contents[k] {
				w.bad("probe.shared", "handle %d of %s reads %s=%q (err %v), the store holds %q", i, h.name, k, got, err, st.contents[k])
			}
		}
	}
	// registry listing and directories
	want := []string{}
	for n, st := range w.stores {
		if st.loaded {
			want = append(want, w.bucketName(n))
		}
	}
	sort.Strings(want)
	var got []string
	for _, n := range rosmar.GetBucketNames() {
		if strings.HasPrefix(n, w.tag) {
			got = append(got, n)
		}
	}
	sort.Strings(got)
	if strings.Join(got, ",") != strings.Join(want, ",") {
		w.bad("registry.names", "GetBucketNames() = %v, expected %v", got, want)
	}
	for _, kind := range []string{"d1", "d2", "D1", "d 3"} {
		for _, n := range lcNames {
			url := w.url(kind, n)
			_, exists := w.onDisk[url]
			_, err := os.Stat(filepath.Join(w.root, kind, n, "rosmar.sqlite3"))
			if (err == nil) != exists {
				w.bad("registry.dir", "database file of %s at %s exists=%v, expected %v", n, kind, err == nil, exists)
			}
		}
	}
}

func (w *lcWorld) cleanup() {
	for _, h := range w.handles {
		safely(func() { h.b.Close(ctx) })
	}
	names := make([]string, 0, len(w.stores))
	for n := range w.stores {
		names = append(names, n)
	}
	for _, n := range names {
		st := w.stores[n]
		safely(func() {
			if b, err := rosmar.OpenBucket(st.url, w.bucketName(n), rosmar.CreateOrOpen); err == nil {
				_ = b.CloseAndDelete(ctx)
			}
		})
	}
	_ = os.RemoveAll(w.root)
}

var lcNames = []string{"x", "y"}

// ("D1" is another directory than "d1": URLs are compared as they are)
func isMemKind(kind string) bool { return kind == "mem" || kind == "mem2" || kind == "mem3" }

var lcKinds = []string{"mem", "d1", "d2", "D1", "d 3", "mem2", "mem3", "d1"} // ("d 3": a path that needs escaping in a URL)

func (w *lcWorld) exec(op Op) {
	w.step++
	switch op.K {
	case "Open":
		w.doOpen(op.Key, op.Path, int(op.Amt))
	case "Close":
		if len(w.handles) > 0 {
			w.doClose(op.H % len(w.handles))
		}
	case "Expire":
		// a document that is already past its (absolute) expiry: the bucket's expiry run fires at once
		if len(w.handles) > 0 {
			h := w.handles[op.H%len(w.handles)]
			st := w.stores[h.name]
			if st != nil && st.inc == h.inc && st.loaded && !h.closed {
				safely(func() {
					if ds := h.b.DefaultDataStore(); ds != nil {
						_ = ds.SetRaw("expired", nowSec()-2, nil, []byte("x"))
					}
				})
				time.Sleep(40 * time.Millisecond)
				w.trace = append(w.trace, fmt.Sprintf("Expire(h%d %s)", op.H%len(w.handles), h.name))
			}
		}
	case "ExpireSoon":
		// a document that expires in a second, written through any open handle: the bucket's expiry
		// timer is armed and fires later, whatever has happened to that handle by then
		if len(w.handles) > 0 {
			h := w.handles[op.H%len(w.handles)]
			st := w.stores[h.name]
			if st != nil && st.inc == h.inc && st.loaded && !h.closed {
				safely(func() {
					if ds := h.b.DefaultDataStore(); ds != nil {
						_ = ds.SetRaw("soon", nowSec()+1, nil, []byte("x"))
					}
				})
				w.trace = append(w.trace, fmt.Sprintf("ExpireSoon(h%d %s)", op.H%len(w.handles), h.name))
			}
		}
	case "Idle":
		// nobody calls into rosmar for a while: whatever is open or kept in memory stays as it is
		time.Sleep(time.Duration(op.Amt) * time.Millisecond)
		w.trace = append(w.trace, fmt.Sprintf("Idle(%dms)", op.Amt))
	case "CloseAndDelete":
		if len(w.handles) > 0 {
			i := op.H % len(w.handles)
			h := w.handles[i]
			// only handles of the name's current store: deleting through a handle of an earlier,
			// already deleted incarnation would delete the *new* bucket of that name (caller error)
			if st := w.stores[h.name]; st != nil && st.inc == h.inc {
				w.doCloseAndDelete(i)
			}
		}
	}
	w.probe()
}

func newLcWorld() *lcWorld {
	root, _ := os.MkdirTemp(tmpRoot(), "lc")
	n := time.Now().UnixNano()
	return &lcWorld{root: root, tag: fmt.Sprintf("lc%s_%d_", shardTag, n), stores: map[string]*lcStore{}, onDisk: map[string]map[string]string{}}
}

func runLifecycle(steps []Op) *lcWorld {
	w := newLcWorld()
	defer w.cleanup()
	for _, op := range steps {
		w.exec(op)
	}
	return w
}

func lcJudge(w *lcWorld, st *Stats) []Deviation {
	var out []Deviation
	for _, d := range w.devs {
		if id, ok := tolerated("C13", d); ok {
			st.mu.Lock()
			st.KnownHits[id]++
			st.mu.Unlock()
			continue
		}
		out = append(out, d)
	}
	return out
}

func TestC13(t *testing.T) {
	st := statsFor("C13", "TestC13")
	st.Rule = "rapid state machine over 2 bucket names x 6 URLs (two spellings of in-memory; four directories, two of them differing only in letter case and one with a space): OpenBucket with each mode, Close, repeated Close, CloseAndDelete on any handle ever returned, and writes of already-expired documents (so that the bucket's own expiry run has been through the store); after every step a write+read probe on every handle (for a closed one also through a data store object obtained while it was open), cross-handle visibility of everything written, GetBucketNames and the on-disk files are compared with a registry model; non-trivial = at least two handles were open on one name while a Close / repeated Close / CloseAndDelete happened; distinct by the sequence of <op, outcome>"
	if replayMode() {
		rp := loadReplay("TestC13")
		if rp == nil {
			t.Skip("replay file is for another test")
		}
		w := runLifecycle(rp.Steps)
		st.Case(1, true, func() any { return w.trace })
		if ds := lcJudge(w, st); len(ds) > 0 {
			t.Fatalf("property C13 violated by replay:%s", devText(ds))
		}
		return
	}
	var once sync.Once
	var minText string
	rapid.Check(t, func(rt *rapid.T) {
		w := newLcWorld()
		defer w.cleanup()
		var steps []Op
		closes := 0
		do := func(op Op) {
			steps = append(steps, op)
			multiBefore := false
			for _, s := range w.stores {
				if s.loaded && s.open >= 2 {
					multiBefore = true
				}
			}
			if multiBefore && op.K != "Open" {
				closes++
			}
			w.exec(op)
		}
		rt.Repeat(map[string]func(*rapid.T){
			"open": func(t *rapid.T) {
				do(Op{K: "Open", Key: pick(t, lcNames, "name"), Path: pick(t, lcKinds, "url"), Amt: uint64(rapid.IntRange(0, 2).Draw(t, "mode"))})
			},
			"open2": func(t *rapid.T) {
				// re-open something that is open already (sharing)
				var names []string
				for n, s := range w.stores {
					if s.loaded {
						names = append(names, n)
					}
				}
				if len(names) == 0 {
					t.Skip("nothing open")
				}
				sort.Strings(names)
				n := pick(t, names, "name")
				do(Op{K: "Open", Key: n, Path: w.stores[n].urlKind, Amt: uint64(pick(t, []int{0, 2}, "mode"))})
			},
			"close": func(t *rapid.T) {
				if len(w.handles) == 0 {
					t.Skip("no handle")
				}
				do(Op{K: "Close", H: rapid.IntRange(0, len(w.handles)-1).Draw(t, "h")})
			},
			"expire": func(t *rapid.T) {
				if len(w.handles) == 0 {
					t.Skip("no handle")
				}
				do(Op{K: "Expire", H: rapid.IntRange(0, len(w.handles)-1).Draw(t, "h")})
			},
			"closeAndDelete": func(t *rapid.T) {
				if len(w.handles) == 0 {
					t.Skip("no handle")
				}
				do(Op{K: "CloseAndDelete", H: rapid.IntRange(0, len(w.handles)-1).Draw(t, "h")})
			},
		})
		sig := fnvString(strings.Join(w.trace, ";"))
		st.Case(sig, closes > 0, func() any { return w.trace })
		st.Label("handles", fmt.Sprintf("%d", len(w.handles)))
		if ds := lcJudge(w, st); len(ds) > 0 {
			once.Do(func() {
				want := ds[0].Clause
				min := DDMin(steps, func(c []Op) bool {
					for _, d := range lcJudge(runLifecycle(c), st) {
						if d.Clause == want {
							return true
						}
					}
					return false
				}, time.Now().Add(20*time.Second))
				mw := runLifecycle(min)
				mds := lcJudge(mw, st)
				if len(mds) == 0 {
					min, mds = steps, ds
				}
				saveReplay(&Replay{Property: "C13", Test: "TestC13", Steps: min, Expect: mds})
				st.Violations++
				minText = devText(mds) + "\n  history: " + strings.Join(mw.trace, "; ")
			})
			rt.Fatalf("property C13 violated (replay %s); minimised history fails with:%s", replayPath("C13", "TestC13"), minText)
		}
	})
}

func fnvString(s string) uint64 {
	var h uint64 = 14695981039346656037
	for i := 0; i < len(s); i++ {
		h ^= uint64(s[i])
		h *= 1099511628211
	}
	return h
}

var _ = json.Marshal

// ---- concurrent opens and closes of an already-created bucket -------------------------------------

type lcRacePlan struct {
	Workers int   `json:"workers"`
	Iters   int   `json:"iters"`
	Holder  bool  `json:"holder"` // one handle stays open during the whole race
	Disk    bool  `json:"disk"`
	Modes   []int `json:"modes"` // per worker: 0 CreateOrOpen, 2 ReOpenExisting
	Seed    int64 `json:"seed"`
	Overlap bool  `json:"overlap,omitempty"` // every other iteration closes its handle from two goroutines at once
}

// runLcRace executes the plan once and returns the violations it observed.
func runLcRace(p lcRacePlan) []Deviation {
	var mu sync.Mutex
	var devs []Deviation
	bad := func(clause, f string, a ...any) {
		mu.Lock()
		devs = append(devs, Deviation{Clause: clause, Props: []string{"C13"}, Msg: fmt.Sprintf(f, a...), Sig: clause})
		mu.Unlock()
	}
	root, _ := os.MkdirTemp(tmpRoot(), "lcr")
	defer os.RemoveAll(root)
	name := fmt.Sprintf("lcr%s_%d", shardTag, time.Now().UnixNano())
	url := rosmar.InMemoryURL
	if p.Disk {
		url = "rosmar://" + filepath.Join(root, "b")
	}
	first, err := rosmar.OpenBucket(url, name, rosmar.CreateNew)
	if err != nil {
		return []Deviation{{Clause: "race.setup", Props: []string{"C13"}, Msg: err.Error()}}
	}
	_ = first.DefaultDataStore().SetRaw("seed", 0, nil, []byte("1"))
	var holder *rosmar.Bucket
	if p.Holder {
		holder = first
	} else {
		first.Close(ctx)
	}
	restore := noiseHook(p.Seed, name)
	defer restore()
	last := make([]string, p.Workers)
	var wg sync.WaitGroup
	for wi := 0; wi < p.Workers; wi++ {
		wg.Add(1)
		go func(wi int) {
			defer wg.Done()
			mode := rosmar.OpenMode(rosmar.CreateOrOpen)
			if p.Modes[wi%len(p.Modes)] == 2 {
				mode = rosmar.ReOpenExisting
			}
			for it := 0; it < p.Iters; it++ {
				var b *rosmar.Bucket
				var err error
				if pn := safely(func() { b, err = rosmar.OpenBucket(url, name, mode) }); pn != "" {
					bad("race.panic", "OpenBucket panicked: %s", pn)
					return
				}
				if err != nil {
					bad("race.open", "worker %d: OpenBucket(mode %d) of an existing bucket failed: %v", wi, mode, err)
					continue
				}
				key, val := fmt.Sprintf("w%d", wi), fmt.Sprintf("%d", it)
				if pn := safely(func() {
					ds := b.DefaultDataStore()
					if ds == nil {
						bad("race.probe", "worker %d: DefaultDataStore on a handle it just opened returned nil", wi)
						return
					}
					if err := ds.SetRaw(key, 0, nil, []byte(val)); err != nil {
						bad("race.probe", "worker %d: write through a handle it holds open failed: %v", wi, err)
						return
					}
					got, _, err := ds.GetRaw(key)
					if err != nil || string(got) != val {
						bad("race.probe", "worker %d: read through a handle it holds open: %q err=%v, wrote %q", wi, got, err, val)
						return
					}
					last[wi] = val
				}); pn != "" {
					bad("race.panic", "probe panicked: %s", pn)
				}
				if p.Overlap && it%2 == 0 {
					// the same handle closed by two goroutines at once: still one release
					var cw sync.WaitGroup
					start := make(chan struct{})
					for k := 0; k < 2; k++ {
						cw.Add(1)
						go func() {
							defer cw.Done()
							<-start
							if pn := safely(func() { b.Close(ctx) }); pn != "" {
								bad("race.panic", "overlapping Close calls on one handle panicked: %s", pn)
							}
						}()
					}
					close(start)
					cw.Wait()
					continue
				}
				safely(func() { b.Close(ctx) })
				if it%2 == 1 {
					safely(func() { b.Close(ctx) }) // closing twice is allowed
				}
			}
		}(wi)
	}
	if holder != nil {
		wg.Add(1)
		go func() {
			defer wg.Done()
			for i := 0; i < p.Iters*3; i++ {
				val := fmt.Sprintf("h%d", i)
				ds := holder.DefaultDataStore()
				if ds == nil {
					bad("race.holder", "the handle that stays open got a nil data store")
					return
				}
				if err := ds.SetRaw("holder", 0, nil, []byte(val)); err != nil {
					bad("race.holder", "write through the handle that stays open failed while others open/close: %v", err)
					return
				}
				if got, _, err := ds.GetRaw("holder"); err != nil || string(got) != val {
					bad("race.holder", "read through the handle that stays open: %q err=%v", got, err)
					return
				}
			}
		}()
	}
	wg.Wait()
	restore()
	if holder != nil {
		// every other handle is closed now (some of them twice, some by overlapping calls): the one
		// that stayed open must still work
		ds := holder.DefaultDataStore()
		if ds == nil {
			bad("race.holder", "the handle that stays open got a nil data store after the others were closed")
		} else if err := ds.SetRaw("holder", 0, nil, []byte("final")); err != nil {
			bad("race.holder", "write through the handle that stays open failed after every other handle was closed: %v", err)
		} else if got, _, err := ds.GetRaw("holder"); err != nil || string(got) != "final" {
			bad("race.holder", "read through the handle that stays open after every other handle was closed: %q err=%v", got, err)
		}
		registered := false
		for _, n := range rosmar.GetBucketNames() {
			registered = registered || n == name
		}
		if !registered {
			bad("race.registry", "a handle of %s is still open but the name is no longer registered", name)
		}
		holder.Close(ctx)
	}
	// quiescence: everything closed
	registered := false
	for _, n := range rosmar.GetBucketNames() {
		if n == name {
			registered = true
		}
	}
	if p.Disk && registered {
		bad("race.registry", "all handles are closed but %s is still registered", name)
	}
	b, err := rosmar.OpenBucket(url, name, rosmar.ReOpenExisting)
	if err != nil {
		bad("race.reopen", "reopen after the race failed: %v", err)
		return devs
	}
	ds := b.DefaultDataStore()
	for wi, want := range last {
		if want == "" {
			continue
		}
		got, _, err := ds.GetRaw(fmt.Sprintf("w%d", wi))
		if err != nil || string(got) != want {
			bad("race.data", "after reopen w%d = %q (err %v), last acknowledged write was %q", wi, got, err, want)
		}
	}
	_ = b.CloseAndDelete(ctx)
	return devs
}

func TestC13Race(t *testing.T) {
	st := statsFor("C13", "TestC13Race")
	st.Rule = "concurrent OpenBucket / probe / Close (and repeated Close, and Close of one handle from two goroutines at once) loops by 2-6 goroutines on one already-created bucket (memory or disk), optionally next to a handle that stays open, with seeded scheduling noise at the verif hook points; every open must succeed, every probe through a handle the goroutine holds open must succeed, afterwards the registry is empty and a reopen sees every acknowledged write; non-trivial = at least 3 workers and 3 iterations; distinct by plan"
	run := func(p lcRacePlan) []Deviation {
		var out []Deviation
		for _, d := range runLcRace(p) {
			if id, ok := tolerated("C13", d); ok {
				st.KnownHits[id]++
				continue
			}
			out = append(out, d)
		}
		return out
	}
	if replayMode() {
		rp := loadReplay("TestC13Race")
		if rp == nil {
			t.Skip("replay file is for another test")
		}
		var p lcRacePlan
		if err := json.Unmarshal(rp.Extra, &p); err != nil {
			t.Fatal(err)
		}
		for i := 0; i < 30; i++ { // schedules are not reproducible: try the plan repeatedly
			p.Seed += int64(i)
			if ds := run(p); len(ds) > 0 {
				t.Fatalf("property C13 violated by replay (attempt %d):%s", i, devText(ds))
			}
		}
		st.Case(1, true, func() any { return p })
		return
	}
	var once sync.Once
	rapid.Check(t, func(rt *rapid.T) {
		p := lcRacePlan{
			Workers: rapid.IntRange(2, 6).Draw(rt, "workers"),
			Iters:   rapid.IntRange(1, 8).Draw(rt, "iters"),
			Holder:  rapid.Bool().Draw(rt, "holder"),
			Disk:    rapid.IntRange(0, 3).Draw(rt, "disk") > 0,
			Seed:    int64(rapid.IntRange(1, 1<<30).Draw(rt, "seed")),
			Overlap: chance(rt, 50, "overlap"),
		}
		for i := 0; i < p.Workers; i++ {
			p.Modes = append(p.Modes, pick(rt, []int{0, 2}, "mode"))
		}
		ds := run(p)
		b, _ := json.Marshal(p)
		st.Case(fnvString(string(b)), p.Workers >= 3 && p.Iters >= 3, func() any { return p })
		if len(ds) > 0 {
			once.Do(func() {
				saveReplay(&Replay{Property: "C13", Test: "TestC13Race", Extra: b, Expect: ds})
				st.Violations++
			})
			rt.Fatalf("property C13 violated (replay %s):%s", replayPath("C13", "TestC13Race"), devText(ds))
		}
	})
}

// ---- a quiet period -------------------------------------------------------------------------------

func genLcStep(rt *rapid.T, nHandles int) Op {
	switch k := pick(rt, []string{"Open", "Open", "Open", "Close", "Close", "Expire", "CloseAndDelete"}, "k"); k {
	case "Open":
		return Op{K: "Open", Key: pick(rt, lcNames, "name"), Path: pick(rt, []string{"mem", "mem", "mem2", "d1", "d 3"}, "url"), Amt: uint64(rapid.IntRange(0, 2).Draw(rt, "mode"))}
	default:
		return Op{K: k, H: rapid.IntRange(0, 7).Draw(rt, "h")}
	}
}

// TestC13Idle: the lifecycle machine with a pause of several seconds in the middle - an in-memory
// bucket (with or without open handles) and every open handle must be exactly what they were.
func TestC13Idle(t *testing.T) {
	st := statsFor("C13", "TestC13Idle")
	st.Rule = "the lifecycle state machine of TestC13 (same model and probes) with a quiet period in the middle: 3-10 generated steps (opens weighted to the in-memory URLs), then 7-9 s in which nothing calls into rosmar, then 2-6 more steps; after the pause every open handle must work and every in-memory bucket that was not deleted must still hold everything written to it; non-trivial = an in-memory bucket existed during the pause; distinct by the sequence of <op, outcome>"
	if replayMode() {
		rp := loadReplay("TestC13Idle")
		if rp == nil {
			t.Skip("replay file is for another test")
		}
		w := runLifecycle(rp.Steps)
		st.Case(1, true, func() any { return w.trace })
		if ds := lcJudge(w, st); len(ds) > 0 {
			t.Fatalf("property C13 violated by replay:%s", devText(ds))
		}
		return
	}
	var once sync.Once
	rapid.Check(t, func(rt *rapid.T) {
		var steps []Op
		n1 := rapid.IntRange(3, 10).Draw(rt, "before")
		for i := 0; i < n1; i++ {
			steps = append(steps, genLcStep(rt, 0))
		}
		steps = append(steps, Op{K: "Idle", Amt: uint64(rapid.IntRange(70, 90).Draw(rt, "idle")) * 100})
		n2 := rapid.IntRange(2, 6).Draw(rt, "after")
		for i := 0; i < n2; i++ {
			steps = append(steps, genLcStep(rt, 0))
		}
		w := newLcWorld()
		defer w.cleanup()
		memAlive := false
		for _, op := range steps {
			if op.K == "Idle" {
				for _, s := range w.stores {
					memAlive = memAlive || (s.loaded && !s.disk)
				}
			}
			w.exec(op)
		}
		st.Case(fnvString(strings.Join(w.trace, ";")), memAlive, func() any { return w.trace })
		if ds := lcJudge(w, st); len(ds) > 0 {
			once.Do(func() {
				saveReplay(&Replay{Property: "C13", Test: "TestC13Idle", Steps: steps, Expect: ds})
				st.Violations++
			})
			rt.Fatalf("property C13 violated (replay %s):%s\n  history: %s", replayPath("C13", "TestC13Idle"), devText(ds), strings.Join(w.trace, "; "))
		}
	})
}

// TestC13Child: lifecycle histories with documents that expire a second after they were written,
// each history in a process of its own: closing a handle must not turn the bucket's later expiry
// run into a panic (which would take every other handle and the in-memory data with it).
func TestC13Child(t *testing.T) {
	st := statsFor("C13", "TestC13Child")
	st.Rule = "lifecycle histories of TestC13 (same model and probes) run in a child process each: 3-8 generated steps among which 1-2 writes of a document that expires one second later through any open handle, then 2.6 s of silence (the expiry timer fires), then 1-3 more steps; the child must not die (a panic on rosmar's timer goroutine is reported with its stack) and every probe must hold; non-trivial = a handle was closed between the write of the expiring document and its expiry while the store stayed alive; distinct by the sequence of <op, outcome>"
	if replayMode() {
		rp := loadReplay("TestC13Child")
		if rp == nil {
			t.Skip("replay file is for another test")
		}
		res, err := runShutdownChild(shutCase{Kind: "lifecycle", Shutdown: "Close", Steps: rp.Steps})
		if err != nil {
			t.Fatalf("infrastructure: %v", err)
		}
		st.Case(1, true, func() any { return res.Log })
		if len(res.Devs) > 0 {
			t.Fatalf("property C13 violated by replay:%s", devText(res.Devs))
		}
		return
	}
	var once sync.Once
	rapid.Check(t, func(rt *rapid.T) {
		var steps []Op
		n1 := rapid.IntRange(3, 8).Draw(rt, "before")
		soonAt := rapid.IntRange(1, n1-1).Draw(rt, "soonAt")
		closedAfter := false
		for i := 0; i < n1; i++ {
			if i == soonAt || (i > soonAt && chance(rt, 15, "soon2")) {
				steps = append(steps, Op{K: "ExpireSoon", H: rapid.IntRange(0, 7).Draw(rt, "soon.h")})
			}
			op := genLcStep(rt, 0)
			if i < soonAt && op.K != "Open" && chance(rt, 60, "openfirst") {
				op = Op{K: "Open", Key: pick(rt, lcNames, "name"), Path: pick(rt, []string{"mem", "mem2", "d1"}, "url"), Amt: 0}
			}
			closedAfter = closedAfter || (i >= soonAt && (op.K == "Close" || op.K == "CloseAndDelete"))
			steps = append(steps, op)
		}
		steps = append(steps, Op{K: "Idle", Amt: 2600})
		n2 := rapid.IntRange(1, 3).Draw(rt, "after")
		for i := 0; i < n2; i++ {
			steps = append(steps, genLcStep(rt, 0))
		}
		res, err := runShutdownChild(shutCase{Kind: "lifecycle", Shutdown: "Close", Steps: steps})
		if err != nil {
			rt.Fatalf("INFRA: %v", err)
		}
		st.Case(fnvString(strings.Join(res.Log, ";")+fmt.Sprint(len(steps))), closedAfter, func() any { return res.Log })
		var ds []Deviation
		for _, d := range res.Devs {
			if _, ok := tolerated("C13", d); ok {
				continue
			}
			for _, p := range d.Props {
				if p == "C13" {
					ds = append(ds, d)
					break
				}
			}
		}
		if len(ds) > 0 {
			once.Do(func() {
				saveReplay(&Replay{Property: "C13", Test: "TestC13Child", Steps: steps, Expect: ds})
				st.Violations++
			})
			rt.Fatalf("property C13 violated (replay %s):%s\n  history: %s", replayPath("C13", "TestC13Child"), devText(ds), strings.Join(res.Log, "; "))
		}
	})
}
