package h

// Test-binary plumbing: statistics for the evidence file, replay files, known findings.

import (
	"encoding/json"
	"fmt"
	"os"
	"path/filepath"
	"regexp"
	"sort"
	"strconv"
	"sync"

	"pgregory.net/rapid"
)

// ---- statistics -----------------------------------------------------------------------------

type Stats struct {
	mu           sync.Mutex
	Property     string                    `json:"property"`
	Test         string                    `json:"test"`
	Evaluations  int                       `json:"evaluations"`
	Steps        int                       `json:"steps"`
	NonTrivial   int                       `json:"nontrivial"`
	Hashes       map[string]bool           `json:"hashes"` // distinct non-trivial case signatures
	Matrix       map[string]int            `json:"matrix"` // op|prior|cas|outcome -> count
	Labels       map[string]map[string]int `json:"labels"`
	Samples      []any                     `json:"samples"`
	OtherDevs    map[string]int            `json:"other_property_deviations"`
	KnownHits    map[string]int            `json:"known_finding_hits"`
	Excluded     int                       `json:"excluded_by_known_findings"`
	Violations   int                       `json:"violations"`
	Inconclusive int                       `json:"inconclusive"`
	Rule         string                    `json:"rule"`
}

var statsByTest = map[string]*Stats{}
var statsMu sync.Mutex

func statsFor(prop, test string) *Stats {
	statsMu.Lock()
	defer statsMu.Unlock()
	s := statsByTest[test]
	if s == nil {
		s = &Stats{Property: prop, Test: test, Hashes: map[string]bool{}, Matrix: map[string]int{}, Labels: map[string]map[string]int{}, OtherDevs: map[string]int{}, KnownHits: map[string]int{}}
		statsByTest[test] = s
	}
	return s
}

func (s *Stats) Label(group, value string) {
	s.mu.Lock()
	defer s.mu.Unlock()
	g := s.Labels[group]
	if g == nil {
		g = map[string]int{}
		s.Labels[group] = g
	}
	g[value]++
}

func (s *Stats) Case(sig uint64, nontrivial bool, sample func() any) {
	s.mu.Lock()
	defer s.mu.Unlock()
	s.Evaluations++
	if nontrivial {
		s.NonTrivial++
		key := strconv.FormatUint(sig, 36)
		if !s.Hashes[key] {
			s.Hashes[key] = true
			if len(s.Samples) < 4 && sample != nil {
				s.Samples = append(s.Samples, sample())
			}
		}
	}
}

func (s *Stats) AddRun(r *Run) {
	s.mu.Lock()
	defer s.mu.Unlock()
	s.Steps += len(r.Trace)
	for _, t := range r.Trace {
		s.Matrix[opLabel(t.Op)+"|"+t.Prior+"|"+t.Cas+"|"+t.Outcome]++
	}
	for _, d := range r.Devs {
		if !d.Has(r.Prop) {
			s.OtherDevs[d.Clause]++
		}
	}
}

func writeStats() {
	path := os.Getenv("VERIF_STATS")
	if path == "" {
		return
	}
	statsMu.Lock()
	defer statsMu.Unlock()
	var list []*Stats
	names := make([]string, 0, len(statsByTest))
	for n := range statsByTest {
		names = append(names, n)
	}
	sort.Strings(names)
	for _, n := range names {
		list = append(list, statsByTest[n])
	}
	b, _ := json.Marshal(list)
	_ = os.WriteFile(path, b, 0644)
}

// ---- replay files ---------------------------------------------------------------------------

type Replay struct {
	Property string          `json:"property"`
	Test     string          `json:"test"`
	Config   Config          `json:"config"`
	Steps    []Op            `json:"steps"`
	Extra    json.RawMessage `json:"extra,omitempty"`  // test-specific (schedule, crash point, ...)
	Expect   []Deviation     `json:"expect,omitempty"` // what failed when it was saved (informational)
}

func loadReplay(test string) *Replay {
	path := os.Getenv("VERIF_REPLAY")
	if path == "" {
		return nil
	}
	b, err := os.ReadFile(path)
	if err != nil {
		panic(fmt.Sprintf("cannot read replay %s: %v", path, err))
	}
	var rp Replay
	if err := json.Unmarshal(b, &rp); err != nil {
		panic(fmt.Sprintf("bad replay %s: %v", path, err))
	}
	if rp.Test != test {
		return nil
	}
	return &rp
}

func replayMode() bool { return os.Getenv("VERIF_REPLAY") != "" }

func replayPath(prop, test string) string {
	dir := os.Getenv("VERIF_OUT")
	if dir == "" {
		dir = os.TempDir()
	}
	return filepath.Join(dir, fmt.Sprintf("violation-%s-%s-shard%s.json", prop, test, shardTag))
}

// saveReplay writes the failing case where the driver will pick it up.
func saveReplay(rp *Replay) string {
	path := replayPath(rp.Property, rp.Test)
	b, _ := json.MarshalIndent(rp, "", " ")
	_ = os.WriteFile(path, b, 0644)
	return path
}

// ---- known findings -------------------------------------------------------------------------

type KnownFinding struct {
	ID       string            `json:"id"`
	Property string            `json:"property"`
	Status   string            `json:"status"`         // known | fixed
	Mode     string            `json:"mode,omitempty"` // exclude | tolerate
	SigRe    string            `json:"signature,omitempty"`
	Witness  string            `json:"witness,omitempty"`
	Exclude  map[string]string `json:"exclude,omitempty"`
	Text     string            `json:"text"`
	Commit   string            `json:"commit,omitempty"`
	re       *regexp.Regexp
}

var knownFindings = func() []KnownFinding {
	path := os.Getenv("VERIF_KNOWN")
	if path == "" {
		path = "/verif/known_findings.json"
	}
	b, err := os.ReadFile(path)
	if err != nil {
		return nil
	}
	var file struct {
		Findings []KnownFinding `json:"findings"`
	}
	if err := json.Unmarshal(b, &file); err != nil {
		panic("bad known_findings.json: " + err.Error())
	}
	var out []KnownFinding
	for _, k := range file.Findings {
		if k.Status != "known" {
			continue // fixed entries suppress nothing
		}
		if k.SigRe != "" {
			k.re = regexp.MustCompile(k.SigRe)
		}
		out = append(out, k)
	}
	return out
}()

// tolerated reports whether deviation d of property prop matches a known finding in tolerate mode.
func tolerated(prop string, d Deviation) (string, bool) {
	if os.Getenv("VERIF_NO_KNOWN") != "" {
		return "", false
	}
	for _, k := range knownFindings {
		if k.Property == prop && k.Mode == "tolerate" && k.re != nil && d.Sig != "" && k.re.MatchString(d.Sig) {
			return k.ID, true
		}
	}
	return "", false
}

// excludedBy reports whether a generated op falls into a cell excluded by a known finding.
func excludedBy(prop string, op Op, p St, ki *KeyInfo) bool {
	if os.Getenv("VERIF_NO_KNOWN") != "" {
		return false
	}
	for _, k := range knownFindings {
		if k.Mode != "exclude" || (k.Property != prop && k.Exclude["allProperties"] != "true") {
			continue
		}
		if v, ok := k.Exclude["op"]; ok && !regexp.MustCompile("^("+v+")$").MatchString(op.K) {
			continue
		}
		if v, ok := k.Exclude["prior"]; ok && !regexp.MustCompile("^("+v+")$").MatchString(p.Class()) {
			continue
		}
		return true
	}
	return false
}

// ---- judging a run --------------------------------------------------------------------------

// Judge splits the run's deviations of its property into reportable and tolerated ones.
func Judge(r *Run, st *Stats) []Deviation {
	var out []Deviation
	for _, d := range r.DevsFor(r.Prop) {
		if id, ok := tolerated(r.Prop, d); ok {
			st.mu.Lock()
			st.KnownHits[id]++
			st.mu.Unlock()
			continue
		}
		out = append(out, d)
	}
	return out
}

func devText(ds []Deviation) string {
	s := ""
	for i, d := range ds {
		if i >= 6 {
			s += fmt.Sprintf("\n  ... and %d more", len(ds)-i)
			break
		}
		s += fmt.Sprintf("\n  [%s step %d props %v] %s", d.Clause, d.Step, d.Props, d.Msg)
	}
	return s
}

// failCase saves the replay and fails the rapid case.
func failCase(rt *rapid.T, st *Stats, rp *Replay, ds []Deviation) {
	rp.Expect = ds
	path := saveReplay(rp)
	st.mu.Lock()
	st.Violations++
	st.mu.Unlock()
	rt.Fatalf("property %s violated (replay saved to %s):%s", rp.Property, path, devText(ds))
}

func rapidChecks(def int) int {
	if s := os.Getenv("VERIF_CHECKS"); s != "" {
		if n, err := strconv.Atoi(s); err == nil && n > 0 {
			return n
		}
	}
	return def
}

func tier() string {
	if t := os.Getenv("VERIF_TIER"); t != "" {
		return t
	}
	return "quick"
}

// ---- survey mode: list every distinct deviation signature instead of stopping at the first ----

var surveyMode = os.Getenv("VERIF_SURVEY") != ""
var surveyMu sync.Mutex
var surveyCount = map[string]int{}
var surveySample = map[string]string{}

func surveyAdd(r *Run) {
	surveyMu.Lock()
	defer surveyMu.Unlock()
	for _, d := range r.Devs {
		sig := d.Sig
		if sig == "" {
			sig = d.Clause
		}
		key := fmt.Sprintf("%v %s", d.Props, sig)
		surveyCount[key]++
		if _, ok := surveySample[key]; !ok {
			surveySample[key] = d.Msg
		}
	}
}

func surveyPrint() {
	if !surveyMode {
		return
	}
	keys := make([]string, 0, len(surveyCount))
	for k := range surveyCount {
		keys = append(keys, k)
	}
	sort.Slice(keys, func(i, j int) bool { return surveyCount[keys[i]] > surveyCount[keys[j]] })
	for _, k := range keys {
		fmt.Printf("SURVEY %6d  %s\n        e.g. %s\n", surveyCount[k], k, surveySample[k])
	}
}
