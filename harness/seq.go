package h

// Sequential model-based histories: the shared runner of C01 C02(a) C05 C06 C07 C08(a) C09(a)
// C11 C17 C18 and friends.

import (
	"fmt"
	"strings"
	"sync"
	"testing"
	"time"

	"pgregory.net/rapid"
)

// Do executes one step (document op or pseudo-op) of a history.
func (r *Run) Do(op Op) {
	if r.Poisoned {
		return
	}
	defer r.checkHeld()
	switch op.K {
	case "CreateColl", "DropColl", "Purge", "Reopen", "Stable", "Sync", "GhostWrite", "OtherBucketWrite", "StopFeed":
	default:
		if op.C >= 0 && op.C < len(r.W.Model.Colls) && r.W.Model.Colls[op.C].Dropped {
			// addressed to a collection that does not exist at this point (only reachable in
			// minimised replays, where the step that created it was removed): looking it up would
			// create it
			r.nDo++
			r.Trace = append(r.Trace, StepTrace{Op: op, Outcome: "no-such-collection"})
			return
		}
	}
	switch op.K {
	case "Reopen", "DropColl", "CreateColl", "Purge":
		r.closeIters() // (not across a close of the handles / a drop: what an open iterator then does is not the subject)
	}
	r.step = r.nDo
	r.nDo++
	r.curOp = op
	defer func() {
		if r.Poisoned {
			return
		}
		switch op.K {
		case "Purge":
			r.isoProbe(-2, op.K) // may legitimately touch every collection: refresh all probes
		case "Stable", "Sync", "Backfill", "Reopen":
			r.isoProbe(-1, op.K)
		case "DropColl", "CreateColl", "StartFeed", "StopFeed":
			// probes handled by the step itself / nothing to probe
		default:
			r.isoProbe(op.C, op.K)
		}
		r.twinCheck(op.K)
	}()
	switch op.K {
	case "Purge":
		r.purge(op.H, op.Amt == 1)
	case "Reopen":
		if r.W.Cfg.Disk {
			r.ReopenStep()
		}
	case "Stable":
		r.Stable()
	case "Sync":
		r.SyncFeeds()
	case "Backfill":
		from := r.resolveFrom(op)
		keysOnly, _ := op.Arg["keysOnly"].(bool)
		r.Backfill(op.H, op.C, from, keysOnly)
	default:
		if h, ok := pseudoHandlers[op.K]; ok {
			h(r, op)
			return
		}
		if op.MetaCas == "same" {
			// the event of this write (if any) carries the CAS of the version before it: settle
			// the feeds first so that the two cannot be confused
			r.SyncFeeds()
		}
		r.Step(op)
	}
}

// pseudoHandlers: bucket-level / read steps registered by the property files (views, queries,
// collection drops, ...). They are part of histories and of replay files like document ops.
var pseudoHandlers = map[string]func(r *Run, op Op){}

// ExtraAction lets a property add its own step kinds to the generated histories.
type ExtraAction struct {
	Name   string
	Weight int
	Gen    func(rt *rapid.T, r *Run) (Op, bool) // false = not applicable now
}

// resolveFrom turns the symbolic start CAS of a Backfill pseudo-op into a number.
func (r *Run) resolveFrom(op Op) uint64 {
	m := r.W.Model
	kind, _ := op.Arg["from"].(string)
	var casList []uint64
	for _, k := range m.Keys(op.C) {
		if st := m.Get(op.C, k); st.Present {
			casList = append(casList, st.Cas)
		}
	}
	n := 0
	if f, ok := op.Arg["n"].(float64); ok {
		n = int(f)
	} else if i, ok := op.Arg["n"].(int); ok {
		n = i
	}
	switch kind {
	case "zero", "":
		return 0
	case "ofkey":
		if len(casList) > 0 {
			return casList[n%len(casList)]
		}
		return 0
	case "after":
		if len(casList) > 0 {
			return casList[n%len(casList)] + 1
		}
		return 2
	case "before":
		if len(casList) > 0 {
			return casList[n%len(casList)] - 1
		}
		return 2
	case "max":
		return 1<<63 - 1
	}
	return 0
}

func genPseudo(rt *rapid.T, w *World, pr *Profile, kind string) Op {
	op := Op{K: kind}
	if len(w.Handles) > 1 {
		op.H = rapid.IntRange(0, len(w.Handles)-1).Draw(rt, "h")
	}
	if kind == "Purge" && chance(rt, 30, "purge.fresh") {
		op.Amt = 1 // through a handle opened for the occasion
	}
	if kind == "Backfill" {
		op.C = pickColl(rt, w, "bf.coll")
		op.Arg = map[string]any{
			"from":     pick(rt, []string{"zero", "ofkey", "after", "before", "max", "zero"}, "bf.from"),
			"n":        rapid.IntRange(0, 5).Draw(rt, "bf.n"),
			"keysOnly": chance(rt, 10, "bf.keysonly"),
		}
	}
	return op
}

// SeqCase draws and executes one history; returns the run and its replay.
func SeqCase(rt *rapid.T, prop, test string, pr *Profile) (*Run, *Replay) {
	cfg := genConfig(rt, pr)
	w, err := NewWorld(cfg)
	if err != nil && strings.Contains(err.Error(), "CreateDataStore") && (prop == "C11" || prop == "C13") {
		// a collection with a name of its own could not be created next to the others
		dev := Deviation{Clause: "setup.collection", Props: []string{"C11"}, Msg: fmt.Sprintf("creating the collections %v of a new bucket failed: %v", cfg.Colls, err), Sig: "setup.collection"}
		path := saveReplay(&Replay{Property: prop, Test: test, Config: cfg, Expect: []Deviation{dev}})
		rt.Fatalf("property %s violated (replay %s): %s", prop, path, dev.Msg)
	}
	if err != nil {
		rt.Fatalf("cannot create world: %v", err)
	}
	run := NewRun(w, prop)
	if pr.Setup != nil {
		pr.Setup(run)
	}
	rp := &Replay{Property: prop, Test: test, Config: w.Cfg}
	if pr.Prefix != nil {
		for _, op := range pr.Prefix(rt, run) {
			rp.Steps = append(rp.Steps, op)
			run.Do(op)
		}
	}
	// rapid's state-machine mode: it owns the number of steps (-rapid.steps) and shrinks the
	// history as one value. Weights are expressed by registering an action several times.
	actions := map[string]func(*rapid.T){}
	doc := func(t *rapid.T) {
		if run.Poisoned {
			t.Skip("world is poisoned")
		}
		op := GenOp(t, w, pr)
		rp.Steps = append(rp.Steps, op)
		run.Do(op)
	}
	for i := 0; i < 20; i++ {
		actions[fmt.Sprintf("a_op%02d", i)] = doc
	}
	pseudo := func(kind string, weight int, enabled func() bool) {
		for i := 0; i < weight; i++ {
			actions[fmt.Sprintf("z_%s%d", kind, i)] = func(t *rapid.T) {
				if run.Poisoned || (enabled != nil && !enabled()) {
					t.Skip(kind + " not applicable")
				}
				op := genPseudo(t, w, pr, kind)
				rp.Steps = append(rp.Steps, op)
				run.Do(op)
			}
		}
	}
	pseudo("Purge", pr.Purge, nil)
	pseudo("Stable", pr.Stable, nil)
	pseudo("Backfill", pr.Backfill, nil)
	pseudo("Reopen", pr.Reopen, func() bool { return cfg.Disk })
	pseudo("Sync", pr.Sync, func() bool { return len(cfg.Feeds) > 0 })
	for _, ea := range pr.Extra {
		ea := ea
		for i := 0; i < ea.Weight; i++ {
			actions[fmt.Sprintf("m_%s%d", ea.Name, i)] = func(t *rapid.T) {
				if run.Poisoned {
					t.Skip("world is poisoned")
				}
				op, ok := ea.Gen(t, run)
				if !ok {
					t.Skip(ea.Name + " not applicable")
				}
				rp.Steps = append(rp.Steps, op)
				run.Do(op)
			}
		}
	}
	rt.Repeat(actions)
	finishRun(run, pr)
	return run, rp
}

func finishRun(run *Run, pr *Profile) {
	if run.Poisoned {
		return
	}
	run.step = run.nDo
	run.closeIters()
	run.SyncFeeds()
	run.checkStoppedFeeds()
	if pr != nil && pr.Backfill > 0 {
		for ci := range run.W.Cfg.Colls {
			if !run.W.Model.Colls[ci].Dropped {
				run.Backfill(0, ci, 0, false)
			}
		}
	}
	run.Stable()
	if pr != nil && pr.Finish != nil {
		pr.Finish(run)
	}
}

// ReplayCase re-executes a saved history.
func ReplayCase(rp *Replay, pr *Profile) (*Run, error) {
	w, err := NewWorld(rp.Config)
	if err != nil {
		return nil, err
	}
	run := NewRun(w, rp.Property)
	if pr != nil && pr.Setup != nil {
		pr.Setup(run)
	}
	for _, op := range rp.Steps {
		run.Do(op)
	}
	finishRun(run, pr)
	return run, nil
}

// seqProperty is the body shared by the sequential property tests.
func seqProperty(t *testing.T, prop, test string, pr *Profile, defChecks int, rule string, nontrivial func(*Run) bool) {
	st := statsFor(prop, test)
	st.Rule = rule
	var failOnce sync.Once
	var minText string
	if pr.Exclude == nil {
		pr.Exclude = func(op Op, p St, ki *KeyInfo) bool { return excludedBy(prop, op, p, ki) }
		pr.Excluded = &st.Excluded
	}
	if replayMode() {
		rp := loadReplay(test)
		if rp == nil {
			t.Skip("replay file is for another test")
		}
		run, err := ReplayCase(rp, pr)
		if err != nil && strings.Contains(err.Error(), "CreateDataStore") && prop == "C11" {
			st.Violations++
			t.Fatalf("property %s violated by replay: creating the collections %v failed: %v", prop, rp.Config.Colls, err)
		}
		if err != nil {
			t.Fatalf("replay: %v", err)
		}
		defer run.Close()
		st.AddRun(run)
		st.Case(run.Signature(), true, func() any { return run.Trace })
		if ds := Judge(run, st); len(ds) > 0 {
			st.Violations++
			t.Fatalf("property %s violated by replay:%s", prop, devText(ds))
		}
		return
	}
	rapid.Check(t, func(rt *rapid.T) {
		run, rp := SeqCase(rt, prop, test, pr)
		defer run.Close()
		st.AddRun(run)
		nt := nontrivial(run)
		st.Case(run.Signature(), nt, func() any { return sampleOf(run) })
		st.Label("world", fmt.Sprintf("disk=%v handles=%d colls=%d feeds=%d", run.W.Cfg.Disk, run.W.Cfg.Handles, len(run.W.Cfg.Colls), len(run.W.Cfg.Feeds)))
		st.Label("steps", fmt.Sprintf("%02d-%02d", len(run.Trace)/10*10, len(run.Trace)/10*10+9))
		if surveyMode {
			surveyAdd(run)
			return
		}
		if ds := Judge(run, st); len(ds) > 0 {
			failOnce.Do(func() {
				// minimise the recorded history once (rapid's own shrinking is disabled by the driver)
				min := Minimize(rp, pr, st, ds[0], 25*time.Second)
				if mrun, err := ReplayCase(min, pr); err == nil {
					if mds := Judge(mrun, st); len(mds) > 0 {
						rp, ds = min, mds
					}
					mrun.W.Close()
				}
				rp.Expect = ds
				saveReplay(rp)
				st.Violations++
				minText = devText(ds)
			})
			rt.Fatalf("property %s violated (replay %s); minimised history fails with:%s", prop, replayPath(prop, test), minText)
		}
	})
	surveyPrint()
}

func sampleOf(run *Run) any {
	type s struct {
		Config Config   `json:"config"`
		Steps  []string `json:"steps"`
	}
	out := s{Config: run.W.Cfg}
	for _, t := range run.Trace {
		out.Steps = append(out.Steps, fmt.Sprintf("%s c%d %q [%s cas=%s] -> %s", opLabel(t.Op), t.Op.C, t.Op.Key, t.Prior, t.Cas, t.Outcome))
	}
	return out
}
