package h

import (
	"encoding/json"
	"errors"
	"fmt"
	"sort"
	"sync/atomic"
	"time"

	sgbucket "github.com/couchbase/sg-bucket"
)

// CasSpec is a symbolic CAS argument, resolved against the model when the op runs.
type CasSpec struct {
	Kind string `json:"k"`           // zero | current | prev | never | other | purged
	N    int    `json:"n,omitempty"` // which previous / which variant
}

// ExpSpec is a symbolic expiry.
type ExpSpec struct {
	Kind string `json:"k"`           // zero | rel | abs
	V    uint32 `json:"v,omitempty"` // seconds (rel: offset passed as is; abs: now+V passed as absolute)
}

type MacroSpec struct {
	Path string `json:"path"`
	Type int    `json:"type"` // 0 = CAS, 1 = crc32c
}

// Op is one step of a history. All fields are plain data so that a history is a replay file.
type Op struct {
	K   string `json:"op"`
	H   int    `json:"h,omitempty"`
	C   int    `json:"c,omitempty"`
	Key string `json:"key,omitempty"`

	Body   []byte  `json:"body"`             // nil = nil value
	Parsed bool    `json:"parsed,omitempty"` // pass the JSON body as a parsed Go value instead of []byte
	Exp    ExpSpec `json:"exp,omitempty"`
	Cas    CasSpec `json:"cas,omitempty"`

	// WriteCas options
	Raw, AddOnly, Append bool `json:",omitempty"`
	// Set / xattr options
	PreserveExp bool `json:"preserveExp,omitempty"`
	NilOpts     bool `json:"nilOpts,omitempty"` // pass a nil options pointer

	X          map[string]string `json:"x,omitempty"`       // xattrs to set: name -> JSON text
	XNil       []string          `json:"xnil,omitempty"`    // xattr names passed with a nil value
	XDel       []string          `json:"xdel,omitempty"`    // xattr names to delete
	XDelNil    bool              `json:"xdelNil,omitempty"` // pass nil instead of an empty delete list
	Macros     []MacroSpec       `json:"macros,omitempty"`
	DeleteBody bool              `json:"deleteBody,omitempty"`

	// Update / WriteUpdateWithXattrs
	Cb    string   `json:"cb,omitempty"` // set | delete | cancel | error | retry | expOnly
	CbExp *ExpSpec `json:"cbExp,omitempty"`
	// CbExpOnce: the callback returns the expiry only on its first invocation (a retried attempt
	// returns none: nothing of the abandoned attempt may be applied)
	CbExpOnce bool     `json:"cbExpOnce,omitempty"`
	Tomb      bool     `json:"tomb,omitempty"` // UpdatedDoc.IsTombstone
	Prev      string   `json:"prev,omitempty"` // "" | current | stale
	XKeys     []string `json:"xkeys,omitempty"`

	// Incr
	Amt, Def uint64 `json:",omitempty"`

	// WithMeta
	MetaCas string `json:"metaCas,omitempty"` // above | below | between
	JSON    bool   `json:"json,omitempty"`

	// subdoc
	Path string `json:"path,omitempty"`

	// bucket-level / read ops carry their parameters here
	Arg   map[string]any `json:"arg,omitempty"`
	View  *ViewOp        `json:"view,omitempty"`
	Query *QueryOp       `json:"query,omitempty"`
}

// ViewOp: parameters of the design-document / view pseudo-ops.
type ViewOp struct {
	DDoc  string              `json:"ddoc"`
	Name  string              `json:"name,omitempty"`
	Specs map[string]ViewSpec `json:"specs,omitempty"` // PutDDoc
	Q     *ViewQuery          `json:"q,omitempty"`     // View
}

func (o Op) String() string {
	b, _ := json.Marshal(o)
	return string(b)
}

// CbObs records what a callback was shown.
type CbObs struct {
	Body []byte
	X    map[string]string
	Cas  uint64
}

// Result of executing an Op against the real API.
type Result struct {
	Err    string  `json:"err,omitempty"` // error class ("" = success)
	ErrMsg string  `json:"errMsg,omitempty"`
	Cas    uint64  `json:"cas,omitempty"`
	Added  bool    `json:"added,omitempty"`
	Val    []byte  `json:"val,omitempty"`
	Num    uint64  `json:"num,omitempty"`
	Panic  string  `json:"panic,omitempty"`
	Hang   bool    `json:"hang,omitempty"`
	Cb     []CbObs `json:"-"`
	T0, T1 uint32  `json:"-"`

	// resolved arguments (for the oracle)
	CasArg     uint64 `json:"casArg,omitempty"`
	CasClass   string `json:"casClass,omitempty"`
	ExpArg     uint32 `json:"expArg,omitempty"`
	MetaCasArg uint64 `json:"metaCasArg,omitempty"`
	CbExpArg   uint32 `json:"-"`
}

func nowSec() uint32 { return uint32(time.Now().Unix()) }

// resolveCas turns a symbolic CAS into a number and reports its semantic class relative to
// the key's current state: zero | current | stale | never.
func (w *World) resolveCas(c int, key string, cs CasSpec) (uint64, string) {
	m := w.Model
	ki := m.Info(c, key)
	cur := ki.St.Cas // 0 if absent
	classify := func(v uint64) (uint64, string) {
		switch {
		case v == 0:
			return 0, "zero"
		case ki.St.Present && v == cur:
			return v, "current"
		case m.AllCas[v]:
			return v, "stale"
		default:
			return v, "never"
		}
	}
	switch cs.Kind {
	case "", "zero":
		return 0, "zero"
	case "current":
		if ki.St.Present {
			return cur, "current"
		}
		return classify(12345)
	case "prev":
		if n := len(ki.CasHist); n > 0 {
			i := n - 1 - cs.N
			if i < 0 {
				i = 0
			}
			return classify(ki.CasHist[i])
		}
		if n := len(ki.PurgedCas); n > 0 {
			return classify(ki.PurgedCas[n-1])
		}
		return classify(12345)
	case "purged":
		if n := len(ki.PurgedCas); n > 0 {
			return classify(ki.PurgedCas[n-1])
		}
		return classify(12345)
	case "other":
		keys := m.Keys(c)
		for i := range keys {
			k := keys[(i+cs.N)%len(keys)]
			if k != key && m.Get(c, k).Present {
				return classify(m.Get(c, k).Cas)
			}
		}
		return classify(12345)
	case "never":
		var v uint64
		switch cs.N % 4 {
		case 0:
			v = 1
		case 1:
			v = cur + 1
		case 2:
			v = cur - 1
		default:
			v = 1<<63 - 1
		}
		for m.AllCas[v] || v == 0 {
			v += 3
		}
		return classify(v)
	}
	panic("bad cas spec " + cs.Kind)
}

func resolveExp(e ExpSpec) uint32 {
	switch e.Kind {
	case "", "zero":
		return 0
	case "rel":
		return e.V
	case "abs":
		return nowSec() + e.V
	}
	panic("bad exp spec " + e.Kind)
}

func xattrArg(op Op) map[string][]byte {
	if len(op.X) == 0 && len(op.XNil) == 0 {
		return nil
	}
	m := make(map[string][]byte, len(op.X)+len(op.XNil))
	for k, v := range op.X {
		m[k] = []byte(v)
	}
	for _, k := range op.XNil {
		m[k] = nil
	}
	return m
}

func xdelArg(op Op) []string {
	if len(op.XDel) == 0 {
		if op.XDelNil {
			return nil
		}
		return nil
	}
	return append([]string(nil), op.XDel...)
}

func mutateOpts(op Op) *sgbucket.MutateInOptions {
	if op.NilOpts {
		return nil
	}
	o := &sgbucket.MutateInOptions{PreserveExpiry: op.PreserveExp}
	for _, m := range op.Macros {
		o.MacroExpansion = append(o.MacroExpansion, sgbucket.NewMacroExpansionSpec(m.Path, sgbucket.MacroExpansionType(m.Type)))
	}
	return o
}

func upsertOpts(op Op) *sgbucket.UpsertOptions {
	if op.NilOpts {
		return nil
	}
	return &sgbucket.UpsertOptions{PreserveExpiry: op.PreserveExp}
}

// canonical compact JSON object of the xattrs in op.X (what a DCP producer would send)
func xattrBlob(x map[string]string) []byte {
	if len(x) == 0 {
		return nil
	}
	names := make([]string, 0, len(x))
	for k := range x {
		names = append(names, k)
	}
	sort.Strings(names)
	out := []byte{'{'}
	for i, k := range names {
		if i > 0 {
			out = append(out, ',')
		}
		kb, _ := json.Marshal(k)
		out = append(out, kb...)
		out = append(out, ':')
		out = append(out, x[k]...)
	}
	return append(out, '}')
}

func bodyValue(op Op) any {
	if op.Body == nil {
		return nil
	}
	if op.Parsed {
		var v any
		if err := json.Unmarshal(op.Body, &v); err == nil && v != nil {
			return v
		}
	}
	return op.Body
}

var errCallback = errors.New("callback says no")

// watchdog for a single API call
const callTimeout = 40 * time.Second

// Exec runs one KV / xattr / subdoc op against the real API.
func (w *World) Exec(op Op) (res Result) {
	done := make(chan struct{})
	go func() {
		defer close(done)
		defer func() {
			if r := recover(); r != nil {
				res.Panic = fmt.Sprint(r)
			}
		}()
		w.exec(op, &res)
	}()
	select {
	case <-done:
	case <-time.After(callTimeout):
		return Result{Hang: true, Err: "hang"}
	}
	return res
}

func (w *World) exec(op Op, res *Result) {
	ds := w.Coll(op.H, op.C)
	var err error
	setErr := func() {
		if err != nil {
			res.Err = errClass(err)
			res.ErrMsg = err.Error()
		}
	}
	defer setErr()
	casArg, casClass := w.resolveCas(op.C, op.Key, op.Cas)
	res.CasArg, res.CasClass = casArg, casClass
	exp := resolveExp(op.Exp)
	res.ExpArg = exp
	if op.CbExp != nil {
		res.CbExpArg = resolveExp(*op.CbExp)
	}
	res.T0 = nowSec()
	defer func() { res.T1 = nowSec() }()

	switch op.K {
	case "Add":
		res.Added, err = ds.Add(op.Key, exp, bodyValue(op))
	case "AddRaw":
		res.Added, err = ds.AddRaw(op.Key, exp, op.Body)
	case "Set":
		err = ds.Set(op.Key, exp, upsertOpts(op), bodyValue(op))
	case "SetRaw":
		err = ds.SetRaw(op.Key, exp, upsertOpts(op), op.Body)
	case "WriteCas":
		var opt sgbucket.WriteOptions
		if op.Raw {
			opt |= sgbucket.Raw
		}
		if op.AddOnly {
			opt |= sgbucket.AddOnly
		}
		if op.Append {
			opt |= sgbucket.Append
		}
		var v any
		if op.Body != nil {
			if op.Raw || op.Append {
				v = op.Body
			} else {
				v = bodyValue(op)
			}
		}
		res.Cas, err = ds.WriteCas(op.Key, exp, casArg, v, opt)
	case "Remove":
		res.Cas, err = ds.Remove(op.Key, casArg)
	case "Delete":
		err = ds.Delete(op.Key)
	case "Touch":
		res.Cas, err = ds.Touch(op.Key, exp)
	case "GetAndTouchRaw":
		res.Val, res.Cas, err = ds.GetAndTouchRaw(op.Key, exp)
	case "Incr":
		res.Num, err = ds.Incr(op.Key, op.Amt, op.Def, exp)
	case "Update":
		calls := 0
		res.Cas, err = ds.Update(op.Key, exp, func(current []byte) ([]byte, *uint32, bool, error) {
			calls++
			res.Cb = append(res.Cb, CbObs{Body: current})
			var ep *uint32
			if op.CbExp != nil {
				e := res.CbExpArg
				ep = &e
			}
			switch op.Cb {
			case "set":
				return op.Body, ep, false, nil
			case "delete":
				return nil, ep, true, nil
			case "cancel":
				return nil, nil, false, nil
			case "error":
				return nil, nil, false, errCallback
			case "retry":
				// (op.Amt: how many times the callback asks for another round, default once)
				if n := int(op.Amt); calls == 1 || calls <= n {
					return nil, nil, false, sgbucket.ErrCasFailureShouldRetry
				}
				return op.Body, ep, false, nil
			case "expOnly":
				return nil, ep, false, nil
			}
			panic("bad cb " + op.Cb)
		})
	case "SetXattrs":
		res.Cas, err = ds.SetXattrs(ctx, op.Key, xattrArg(op))
	case "UpdateXattrs":
		res.Cas, err = ds.UpdateXattrs(ctx, op.Key, exp, casArg, xattrArg(op), mutateOpts(op))
	case "RemoveXattrs":
		err = ds.RemoveXattrs(ctx, op.Key, append([]string(nil), op.XDel...), casArg)
	case "DeleteSubDocPaths":
		err = ds.DeleteSubDocPaths(ctx, op.Key, op.XDel...)
	case "WriteWithXattrs":
		res.Cas, err = ds.WriteWithXattrs(ctx, op.Key, exp, casArg, op.Body, xattrArg(op), xdelArg(op), mutateOpts(op))
	case "WriteTombstoneWithXattrs":
		res.Cas, err = ds.WriteTombstoneWithXattrs(ctx, op.Key, exp, casArg, xattrArg(op), xdelArg(op), op.DeleteBody, mutateOpts(op))
	case "WriteResurrectionWithXattrs":
		res.Cas, err = ds.WriteResurrectionWithXattrs(ctx, op.Key, exp, op.Body, xattrArg(op), mutateOpts(op))
	case "DeleteWithXattrs":
		err = ds.DeleteWithXattrs(ctx, op.Key, append([]string(nil), op.XDel...))
	case "WriteUpdateWithXattrs":
		var prev *sgbucket.BucketDocument
		if op.Prev != "" {
			cur := w.Model.Get(op.C, op.Key)
			prev = &sgbucket.BucketDocument{Body: cur.Body, Cas: cur.Cas, IsTombstone: cur.Tomb(), Xattrs: map[string][]byte{}}
			for _, k := range op.XKeys {
				if v, ok := cur.X[k]; ok {
					prev.Xattrs[k] = []byte(v)
				}
			}
			if op.Prev == "stale" {
				v, _ := w.resolveCas(op.C, op.Key, CasSpec{Kind: "never", N: 1})
				prev.Cas = v
			}
		}
		calls := 0
		opts := mutateOpts(op)
		if opts != nil {
			opts.MacroExpansion = nil // macros come from the callback's Spec
		}
		res.Cas, err = ds.WriteUpdateWithXattrs(ctx, op.Key, op.XKeys, exp, prev, opts,
			func(doc []byte, xattrs map[string][]byte, cas uint64) (sgbucket.UpdatedDoc, error) {
				calls++
				obs := CbObs{Body: doc, Cas: cas, X: map[string]string{}}
				for k, v := range xattrs {
					obs.X[k] = string(v)
				}
				res.Cb = append(res.Cb, obs)
				if op.Cb == "error" {
					return sgbucket.UpdatedDoc{}, errCallback
				}
				if n := int(op.Amt); op.Cb == "retry" && (calls == 1 || calls <= n) {
					return sgbucket.UpdatedDoc{}, sgbucket.ErrCasFailureShouldRetry
				}
				ud := sgbucket.UpdatedDoc{Doc: op.Body, Xattrs: xattrArg(op), XattrsToDelete: xdelArg(op), IsTombstone: op.Tomb}
				if op.CbExp != nil && !(op.CbExpOnce && calls > 1) {
					e := res.CbExpArg
					ud.Expiry = &e
				}
				for _, m := range op.Macros {
					ud.Spec = append(ud.Spec, sgbucket.NewMacroExpansionSpec(m.Path, sgbucket.MacroExpansionType(m.Type)))
				}
				return ud, nil
			})
	case "SetWithMeta", "DeleteWithMeta":
		newCas := w.resolveMetaCas(op)
		res.MetaCasArg = newCas
		if op.Exp.Kind == "rel" {
			exp = nowSec() + op.Exp.V // *WithMeta takes absolute expiries only
			res.ExpArg = exp
		}
		if op.K == "SetWithMeta" {
			var dt sgbucket.FeedDataType
			if op.JSON {
				dt = sgbucket.FeedDataTypeJSON
			}
			err = w.RColl(op.H, op.C).SetWithMeta(ctx, op.Key, casArg, newCas, exp, xattrBlob(op.X), op.Body, dt)
		} else {
			err = w.RColl(op.H, op.C).DeleteWithMeta(ctx, op.Key, casArg, newCas, exp, xattrBlob(op.X))
		}
		if err == nil {
			res.Cas = newCas
		}
	case "WriteSubDoc":
		res.Cas, err = ds.WriteSubDoc(ctx, op.Key, op.Path, casArg, op.Body)
	case "SubdocInsert":
		var v any
		if op.Body != nil {
			if e := json.Unmarshal(op.Body, &v); e != nil {
				panic("SubdocInsert value must be JSON: " + string(op.Body))
			}
		}
		err = ds.SubdocInsert(ctx, op.Key, op.Path, casArg, v)
	default:
		panic("Exec: unknown op " + op.K)
	}
}

// resolveMetaCas picks the CAS a *WithMeta call stamps on the document: unique, and above /
// below every CAS seen so far.
var metaSerial int64

func (w *World) resolveMetaCas(op Op) uint64 {
	m := w.Model
	var v uint64
	switch op.MetaCas {
	case "", "above":
		// unaligned (cannot coincide with a 2^16-aligned clock reading later) and different for
		// concurrent lanes that resolve against the same model
		v = m.MaxCas + 0x10000 + 0x3039 + 2*uint64(atomic.AddInt64(&metaSerial, 1)%1000)
		if v < 0x10000 {
			v = uint64(time.Now().UnixNano())
		}
	case "future":
		// ahead of the local clock (another cluster's clock runs fast): later local writes to the
		// key get a smaller CAS than the one stored
		v = uint64(time.Now().Add(time.Hour).UnixNano()) | 0x3039
		v += 2 * uint64(atomic.AddInt64(&metaSerial, 1)%1000)
	case "same":
		// the CAS the document already has (a replayed import): no uniqueness adjustment
		if cur := m.Get(op.C, op.Key); cur.Present {
			return cur.Cas
		}
		v = m.MaxCas + 0x10000 + 0x3039
	case "huge":
		// beyond what the store can hold (a signed 64-bit column): the call must fail cleanly
		return 1<<63 | uint64(0x3039+2*(atomic.AddInt64(&metaSerial, 1)%1000))
	case "below":
		v = 1000
	case "between":
		cur := m.Get(op.C, op.Key).Cas
		if cur > 2 {
			v = cur - 1
		} else {
			v = 1000
		}
	default:
		panic("bad metaCas " + op.MetaCas)
	}
	for m.AllCas[v] || v == 0 {
		v++
	}
	return v
}
