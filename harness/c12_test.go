package h

import (
	"testing"

	"pgregory.net/rapid"
)

func viewProfile() *Profile {
	return &Profile{
		Ops: scale(allDocOps, map[string]int{"Set": 14, "Add": 8, "WriteCas": 12, "Delete": 8, "Update": 8, "WriteWithXattrs": 9, "SetXattrs": 6,
			"WriteTombstoneWithXattrs": 5, "WriteResurrectionWithXattrs": 4, "DeleteWithXattrs": 3, "RemoveXattrs": 3, "Incr": 1, "AddRaw": 3, "SetRaw": 3,
			"WriteSubDoc": 0, "SubdocInsert": 0, "Touch": 1, "GetAndTouchRaw": 1}),
		Keys:        []string{"a", "b", "c", "d"},
		MultiHandle: true, Purge: 2, Reopen: 1, KeepFeeds: true,
		JSONBody: genViewBody,
		Config: func(rt *rapid.T, c *Config) {
			// one multi-collection live feed: the oracle learns each version's JSON datatype from it
			c.Feeds = []FeedCfg{{H: 0, C: 0, Multi: len(c.Colls) > 1}}
			c.MaxDocSize = 0
		},
		Extra: []ExtraAction{
			{Name: "PutDDoc", Weight: 3, Gen: genPutDDoc},
			{Name: "DeleteDDoc", Weight: 1, Gen: genDeleteDDoc},
			{Name: "View", Weight: 12, Gen: genViewQueryOp},
		},
	}
}

// C12 — a non-stale view query equals the map function applied to the current documents.
func TestC12(t *testing.T) {
	pr := viewProfile()
	seqProperty(t, "C12", "TestC12", pr, 600,
		"rapid histories over all write entry points with design documents generated from a grammar of map functions that has a Go twin (guards on doc.type / meta.xattrs._sync, emits of doc.k / meta.id / [doc.type,doc.k] / meta.xattrs._sync.seq / doc.n, reduce none/_count/_sum), design-doc replacement and deletion, and view queries (key, keys, startkey/endkey, inclusive_end, descending, limit, reduce, group, group_level, stale=ok) placed anywhere; every stale=false result is compared with the twin evaluated over the model's documents and with a freshly built identical view; non-trivial = at least two stale=false queries of existing views with a delete, a resurrection or xattr-only write, and an update of an already indexed document between the first and the last; distinct by <op, prior class, CAS class, outcome> sequence",
		func(r *Run) bool {
			queries, del, res, upd := 0, false, false, false
			first := -1
			for i, tr := range r.Trace {
				if tr.Op.K == "View" && tr.Outcome == "rows-equal" {
					queries++
					if first < 0 {
						first = i
					}
				}
				if first >= 0 && isDocOp(tr) && tr.Err == "" {
					f := family(tr.Op)
					if f.del && (tr.Prior == "live" || tr.Prior == "liveX") {
						del = true
					}
					if (tr.Prior == "tomb" || tr.Prior == "tombX") && !f.del {
						res = true
					}
					if (tr.Prior == "live" || tr.Prior == "liveX") && !f.del {
						upd = true
					}
				}
			}
			return queries >= 2 && del && res && upd
		})
}
