package h

// C12: a grammar of map functions with a Go twin, an independent evaluation of a view query over
// the model's documents, and its comparison with what rosmar returns.

import (
	"context"
	"encoding/json"
	"fmt"
	"os"
	"reflect"
	"sort"
	"strings"

	sgbucket "github.com/couchbase/sg-bucket"
	"pgregory.net/rapid"
)

// ViewSpec describes one generated map function (JSON-serialisable: part of replay files).
type ViewSpec struct {
	Guard  string   `json:"guard"`  // "" | "type" | "sync" | "notype"
	Emits  []string `json:"emits"`  // each "<keyExpr>|<valExpr>"
	Reduce string   `json:"reduce"` // "" | "_count" | "_sum"
}

// key expressions: k = doc.k, id = meta.id, tk = [doc.type, doc.k], seq = meta.xattrs._sync.seq, n = doc.n
// value expressions: n = doc.n, null, one = 1, id = meta.id, k = doc.k

func (v ViewSpec) JS() string {
	var b strings.Builder
	b.WriteString("function(doc, meta) {")
	switch v.Guard {
	case "type":
		b.WriteString(` if (doc.type != "t1") return;`)
	case "notype":
		b.WriteString(` if (doc.type == "t1") return;`)
	case "sync":
		b.WriteString(` if (!meta.xattrs || meta.xattrs._sync === undefined) return;`)
	}
	for _, e := range v.Emits {
		parts := strings.Split(e, "|")
		var cond, key, val string
		switch parts[0] {
		case "k":
			cond, key = "doc.k !== undefined", "doc.k"
		case "id":
			cond, key = "true", "meta.id"
		case "tk":
			cond, key = "doc.k !== undefined && doc.type !== undefined", "[doc.type, doc.k]"
		case "seq":
			cond, key = "meta.xattrs && meta.xattrs._sync && typeof(meta.xattrs._sync) == 'object' && meta.xattrs._sync.seq !== undefined", "meta.xattrs._sync.seq"
		case "n":
			cond, key = "doc.n !== undefined", "doc.n"
		}
		switch parts[1] {
		case "n":
			val = "(doc.n === undefined ? null : doc.n)"
		case "null":
			val = "null"
		case "one":
			val = "1"
		case "id":
			val = "meta.id"
		case "k":
			val = "(doc.k === undefined ? null : doc.k)"
		}
		fmt.Fprintf(&b, " if (%s) emit(%s, %s);", cond, key, val)
	}
	b.WriteString(" }")
	return b.String()
}

type vrow struct {
	ID  string
	Key any
	Val any
}

// mapDoc is the Go twin of JS(): the rows the map function emits for one document.
func (v ViewSpec) mapDoc(id string, body []byte, isJSON bool, x map[string]string) []vrow {
	var doc any = map[string]any{}
	if body != nil && isJSON {
		if err := json.Unmarshal(body, &doc); err != nil {
			return nil // the JS runner fails to parse the document: no rows
		}
	}
	field := func(name string) (any, bool) {
		m, ok := doc.(map[string]any)
		if !ok {
			return nil, false
		}
		val, ok := m[name]
		// the JS runner presents JSON null properties as undefined (sg-bucket/otto conversion)
		return val, ok && val != nil
	}
	var sync any
	hasSync := false
	if raw, ok := x["_sync"]; ok {
		_ = json.Unmarshal([]byte(raw), &sync)
		hasSync = sync != nil // a JSON null xattr is presented to the map function as undefined
	}
	typ, hasType := field("type")
	switch v.Guard {
	case "type":
		if !hasType || typ != "t1" {
			return nil
		}
	case "notype":
		if hasType && typ == "t1" {
			return nil
		}
	case "sync":
		if !hasSync {
			return nil
		}
	}
	var out []vrow
	for _, e := range v.Emits {
		parts := strings.Split(e, "|")
		var key any
		ok := false
		switch parts[0] {
		case "k":
			key, ok = field("k")
		case "id":
			key, ok = id, true
		case "tk":
			k, hasK := field("k")
			if hasK && hasType {
				key, ok = []any{typ, k}, true
			}
		case "seq":
			if sm, isMap := sync.(map[string]any); isMap && hasSync {
				key, ok = sm["seq"], false
				if s, has := sm["seq"]; has && s != nil {
					key, ok = s, true
				}
			}
		case "n":
			key, ok = field("n")
		}
		if !ok {
			continue
		}
		var val any
		switch parts[1] {
		case "n":
			val, _ = field("n")
		case "null":
			val = nil
		case "one":
			val = float64(1)
		case "id":
			val = id
		case "k":
			val, _ = field("k")
		}
		out = append(out, vrow{ID: id, Key: key, Val: val})
	}
	return out
}

// ---- collation restricted to the generated key domain -----------------------------------------
// null < false < true < numbers < strings ([0-9a-z]*, compared bytewise) < arrays < objects

func collRank(v any) int {
	switch t := v.(type) {
	case nil:
		return 0
	case bool:
		if !t {
			return 1
		}
		return 2
	case float64:
		return 3
	case string:
		return 4
	case []any:
		return 5
	default:
		return 6
	}
}

func collate(a, b any) int {
	ra, rb := collRank(a), collRank(b)
	if ra != rb {
		if ra < rb {
			return -1
		}
		return 1
	}
	switch ta := a.(type) {
	case float64:
		tb := b.(float64)
		switch {
		case ta < tb:
			return -1
		case ta > tb:
			return 1
		}
		return 0
	case string:
		return strings.Compare(ta, b.(string))
	case []any:
		tb := b.([]any)
		for i := 0; i < len(ta) && i < len(tb); i++ {
			if c := collate(ta[i], tb[i]); c != 0 {
				return c
			}
		}
		switch {
		case len(ta) < len(tb):
			return -1
		case len(ta) > len(tb):
			return 1
		}
		return 0
	}
	return 0
}

// ViewQuery: generated query parameters.
type ViewQuery struct {
	Key          *string  `json:"key,omitempty"`  // JSON text
	Keys         []string `json:"keys,omitempty"` // JSON texts
	Start, End   *string  `json:",omitempty"`
	InclusiveEnd *bool    `json:"inclusive_end,omitempty"`
	Descending   bool     `json:"descending,omitempty"`
	Limit        int      `json:"limit,omitempty"`
	Reduce       *bool    `json:"reduce,omitempty"`
	Group        bool     `json:"group,omitempty"`
	GroupLevel   int      `json:"group_level,omitempty"`
	Stale        string   `json:"stale,omitempty"` // "" (= false) | ok | updateAfter
	// Cancelled: the query is made with a context that is already cancelled (an abandoned request):
	// whatever it returns, it must not leave the index believing it is up to date
	Cancelled bool `json:"cancelled,omitempty"`
}

func jsonVal(s string) any {
	var v any
	_ = json.Unmarshal([]byte(s), &v)
	return v
}

func (q ViewQuery) Params() map[string]any {
	p := map[string]any{"stale": false}
	switch q.Stale {
	case "ok":
		p["stale"] = "ok"
	case "updateAfter":
		p["stale"] = "updateAfter"
	}
	if q.Key != nil {
		p["key"] = jsonVal(*q.Key)
	}
	if q.Keys != nil {
		ks := make([]any, len(q.Keys))
		for i, k := range q.Keys {
			ks[i] = jsonVal(k)
		}
		p["keys"] = ks
	}
	if q.Start != nil {
		p["startkey"] = jsonVal(*q.Start)
	}
	if q.End != nil {
		p["endkey"] = jsonVal(*q.End)
	}
	if q.InclusiveEnd != nil {
		p["inclusive_end"] = *q.InclusiveEnd
	}
	if q.Descending {
		p["descending"] = true
	}
	if q.Limit > 0 {
		p["limit"] = q.Limit
	}
	if q.Reduce != nil {
		p["reduce"] = *q.Reduce
	}
	if q.Group {
		p["group"] = true
	}
	if q.GroupLevel > 0 {
		p["group_level"] = q.GroupLevel
	}
	return p
}

// expectedRows evaluates the query independently over the model's documents of collection ci.
func expectedViewRows(r *Run, ci int, v ViewSpec, q ViewQuery) []vrow {
	m := r.W.Model
	var rows []vrow
	for _, k := range m.Keys(ci) {
		ki := m.Info(ci, k)
		st := ki.St
		if !st.Present || (st.Body == nil && len(st.X) == 0) {
			continue
		}
		isJSON := false
		if ki.IsJSON != nil {
			isJSON = *ki.IsJSON
		}
		rows = append(rows, v.mapDoc(k, st.Body, isJSON, st.X)...)
	}
	// order: key collation, then document id (bytewise)
	sort.SliceStable(rows, func(i, j int) bool {
		if c := collate(rows[i].Key, rows[j].Key); c != 0 {
			return c < 0
		}
		return rows[i].ID < rows[j].ID
	})
	// key / keys / range
	keep := rows[:0:0]
	for _, row := range rows {
		ok := true
		switch {
		case q.Keys != nil:
			ok = false
			for _, k := range q.Keys {
				if collate(row.Key, jsonVal(k)) == 0 {
					ok = true
				}
			}
		case q.Key != nil:
			ok = collate(row.Key, jsonVal(*q.Key)) == 0
		default:
			lo, hi := q.Start, q.End
			incLo, incHi := true, true
			if q.InclusiveEnd != nil {
				incHi = *q.InclusiveEnd
			}
			if q.Descending {
				lo, hi = hi, lo
				incLo, incHi = incHi, true
			}
			if lo != nil {
				c := collate(row.Key, jsonVal(*lo))
				if c < 0 || (c == 0 && !incLo) {
					ok = false
				}
			}
			if hi != nil {
				c := collate(row.Key, jsonVal(*hi))
				if c > 0 || (c == 0 && !incHi) {
					ok = false
				}
			}
		}
		if ok {
			keep = append(keep, row)
		}
	}
	rows = keep
	if q.Descending {
		for i, j := 0, len(rows)-1; i < j; i, j = i+1, j-1 {
			rows[i], rows[j] = rows[j], rows[i]
		}
	}
	if q.Limit > 0 && len(rows) > q.Limit {
		rows = rows[:q.Limit]
	}
	// reduce
	doReduce := v.Reduce != "" && (q.Reduce == nil || *q.Reduce)
	if doReduce && len(rows) > 0 {
		red := func(rs []vrow) any {
			if v.Reduce == "_count" {
				return float64(len(rs))
			}
			total := float64(0)
			for _, x := range rs {
				if f, ok := x.Val.(float64); ok {
					total += f
				}
			}
			return total
		}
		switch {
		case q.Group || q.GroupLevel > 0:
			gkey := func(k any) any {
				if q.GroupLevel > 0 {
					if arr, ok := k.([]any); ok {
						if len(arr) > q.GroupLevel {
							return append([]any{}, arr[:q.GroupLevel]...)
						}
						return arr
					}
				}
				return k
			}
			var out []vrow
			var cur []vrow
			for _, row := range rows {
				if len(cur) > 0 && collate(gkey(cur[0].Key), gkey(row.Key)) != 0 {
					out = append(out, vrow{Key: gkey(cur[0].Key), Val: red(cur)})
					cur = nil
				}
				cur = append(cur, row)
			}
			out = append(out, vrow{Key: gkey(cur[0].Key), Val: red(cur)})
			rows = out
		default:
			rows = []vrow{{Val: red(rows)}}
		}
	}
	return rows
}

func normRows(rows []vrow) []string {
	out := make([]string, len(rows))
	for i, r := range rows {
		k, _ := json.Marshal(r.Key)
		v, _ := json.Marshal(r.Val)
		out[i] = fmt.Sprintf("%s|%s|%s", k, r.ID, v)
	}
	// rows with the same key and id (two emits of one document) have no defined order
	sort.SliceStable(out, func(i, j int) bool {
		pi, pj := strings.SplitN(out[i], "|", 3), strings.SplitN(out[j], "|", 3)
		if pi[0] == pj[0] && pi[1] == pj[1] {
			return pi[2] < pj[2]
		}
		return false
	})
	return out
}

func gotRows(res sgbucket.ViewResult) []vrow {
	out := make([]vrow, len(res.Rows))
	for i, r := range res.Rows {
		out[i] = vrow{ID: r.ID, Key: r.Key, Val: r.Value}
	}
	return out
}

// ---- generators -------------------------------------------------------------------------------

var noKeysParam = os.Getenv("VERIF_NOKEYS") != ""

var viewKeyStrings = []string{"a", "b", "ab", "b1", "", "z"}

func genViewKeyVal(rt *rapid.T, label string, depth int) any {
	switch rapid.IntRange(0, 7).Draw(rt, label+".kind") {
	case 0:
		return nil
	case 1:
		return rapid.Bool().Draw(rt, label+".b")
	case 2, 3:
		return float64(rapid.IntRange(-3, 6).Draw(rt, label+".n"))
	case 4:
		return float64(rapid.IntRange(-4, 8).Draw(rt, label+".d")) / 2
	case 5, 6:
		return pick(rt, viewKeyStrings, label+".s")
	default:
		if depth > 0 {
			n := rapid.IntRange(0, 2).Draw(rt, label+".alen")
			arr := make([]any, n)
			for i := range arr {
				arr[i] = genViewKeyVal(rt, fmt.Sprintf("%s[%d]", label, i), depth-1)
			}
			return arr
		}
		return "a"
	}
}

// genViewBody: documents shaped for the view grammar.
func genViewBody(rt *rapid.T) []byte {
	m := map[string]any{}
	if chance(rt, 80, "vb.hask") {
		m["k"] = genViewKeyVal(rt, "vb.k", 1)
	}
	if chance(rt, 70, "vb.hasn") {
		m["n"] = float64(rapid.IntRange(-5, 20).Draw(rt, "vb.n"))
	}
	if chance(rt, 75, "vb.hastype") {
		m["type"] = pick(rt, []string{"t1", "t2"}, "vb.type")
	}
	if chance(rt, 7, "vb.multiline") {
		// the same document written over several lines: stored, indexed and queried byte for byte
		b, _ := json.MarshalIndent(m, "", " ")
		return b
	}
	return mustJSON(m)
}

func genViewSpec(rt *rapid.T) ViewSpec {
	v := ViewSpec{Guard: pick(rt, []string{"", "", "type", "sync", "notype"}, "view.guard")}
	n := rapid.IntRange(1, 2).Draw(rt, "view.nemits")
	for i := 0; i < n; i++ {
		k := pick(rt, []string{"k", "k", "id", "tk", "seq", "n"}, "view.key")
		val := pick(rt, []string{"n", "null", "one", "id", "k"}, "view.val")
		v.Emits = append(v.Emits, k+"|"+val)
	}
	switch rapid.IntRange(0, 4).Draw(rt, "view.reduce") {
	case 0:
		v.Reduce = "_count"
	case 1:
		v.Reduce = "_sum"
		for i, e := range v.Emits {
			parts := strings.Split(e, "|")
			// _sum needs numeric values: doc.n only where the emit is guarded by doc.n itself
			if !(parts[1] == "one" || (parts[1] == "n" && parts[0] == "n")) {
				v.Emits[i] = parts[0] + "|one"
			}
		}
	}
	return v
}

func keyText(rt *rapid.T, label string, arrays bool) string {
	d := 0
	if arrays {
		d = 1
	}
	return string(mustJSON(genViewKeyVal(rt, label, d)))
}

func genViewQuery(rt *rapid.T, v ViewSpec) ViewQuery {
	q := ViewQuery{}
	arrKeys := false
	for _, e := range v.Emits {
		if strings.HasPrefix(e, "tk|") {
			arrKeys = true
		}
	}
	switch rapid.IntRange(0, 9).Draw(rt, "q.sel") {
	case 0, 1:
		k := keyText(rt, "q.key", arrKeys)
		if k != "null" { // a null key parameter means "not given"
			q.Key = &k
		}
	case 2:
		if noKeysParam {
			break
		}
		n := rapid.IntRange(1, 3).Draw(rt, "q.nkeys")
		for i := 0; i < n; i++ {
			q.Keys = append(q.Keys, keyText(rt, fmt.Sprintf("q.keys%d", i), arrKeys))
		}
	case 3, 4, 5:
		if chance(rt, 70, "q.hasstart") {
			k := keyText(rt, "q.start", arrKeys)
			if k != "null" {
				q.Start = &k
			}
		}
		if chance(rt, 70, "q.hasend") {
			k := keyText(rt, "q.end", arrKeys)
			if k != "null" {
				q.End = &k
			}
		}
		if chance(rt, 40, "q.incl") {
			b := rapid.Bool().Draw(rt, "q.inclusive_end")
			q.InclusiveEnd = &b
		}
	}
	q.Descending = chance(rt, 30, "q.desc")
	if v.Reduce != "" {
		switch rapid.IntRange(0, 3).Draw(rt, "q.reduce") {
		case 0:
			b := false
			q.Reduce = &b
		case 1:
			q.Group = true
		case 2:
			if arrKeys && len(v.Emits) == 1 {
				q.GroupLevel = rapid.IntRange(1, 2).Draw(rt, "q.grouplevel")
			}
		}
	}
	reducing := v.Reduce != "" && (q.Reduce == nil || *q.Reduce)
	if !reducing && chance(rt, 35, "q.haslimit") {
		q.Limit = rapid.IntRange(1, 4).Draw(rt, "q.limit")
	}
	return q
}

// rowsEqual compares two normalised row lists.
func rowsEqual(a, b []string) bool { return reflect.DeepEqual(a, b) || (len(a) == 0 && len(b) == 0) }

// ---- steps ------------------------------------------------------------------------------------

func init() {
	pseudoHandlers["PutDDoc"] = func(r *Run, op Op) { r.PutDDocStep(op) }
	pseudoHandlers["DeleteDDoc"] = func(r *Run, op Op) { r.DeleteDDocStep(op) }
	pseudoHandlers["View"] = func(r *Run, op Op) { r.ViewStep(op) }
}

func (r *Run) ddocs(ci int) map[string]map[string]ViewSpec {
	if r.DDocs == nil {
		r.DDocs = map[int]map[string]map[string]ViewSpec{}
	}
	if r.DDocs[ci] == nil {
		r.DDocs[ci] = map[string]map[string]ViewSpec{}
	}
	return r.DDocs[ci]
}

func designDoc(specs map[string]ViewSpec) *sgbucket.DesignDoc {
	dd := &sgbucket.DesignDoc{Language: "javascript", Views: sgbucket.ViewMap{}}
	for name, v := range specs {
		dd.Views[name] = sgbucket.ViewDef{Map: v.JS(), Reduce: v.Reduce}
	}
	return dd
}

func (r *Run) PutDDocStep(op Op) {
	tr := StepTrace{Op: op, Outcome: "ddoc-put"}
	vs := r.W.Coll(op.H, op.C).(sgbucket.ViewStore)
	if err := vs.PutDDoc(ctx, op.View.DDoc, designDoc(op.View.Specs)); err != nil {
		r.dev("ddoc.put", []string{"C12"}, "PutDDoc(%s) failed: %v", op.View.DDoc, err)
		tr.Outcome = "DEVIATION"
	} else {
		r.ddocs(op.C)[op.View.DDoc] = op.View.Specs
	}
	r.Trace = append(r.Trace, tr)
	r.checkDDocs(op.H)
}

func (r *Run) DeleteDDocStep(op Op) {
	tr := StepTrace{Op: op, Outcome: "ddoc-deleted"}
	vs := r.W.Coll(op.H, op.C).(sgbucket.ViewStore)
	err := vs.DeleteDDoc(op.View.DDoc)
	_, had := r.ddocs(op.C)[op.View.DDoc]
	switch {
	case had && err != nil:
		r.dev("ddoc.delete", []string{"C12"}, "DeleteDDoc(%s) failed: %v", op.View.DDoc, err)
		tr.Outcome = "DEVIATION"
	case !had && errClass(err) != "missing":
		r.dev("ddoc.delete", []string{"C12"}, "DeleteDDoc of a missing design doc returned %v", err)
		tr.Outcome = "DEVIATION"
	case !had:
		tr.Outcome = "ddoc-missing"
	}
	delete(r.ddocs(op.C), op.View.DDoc)
	r.Trace = append(r.Trace, tr)
	r.checkDDocs(op.H)
}

// checkDDocs: GetDDocs of every collection lists exactly the model's design documents (C11: a
// design-doc operation on one collection leaves the others' alone).
func (r *Run) checkDDocs(h int) {
	for ci := range r.W.Cfg.Colls {
		if r.W.Model.Colls[ci].Dropped {
			continue
		}
		got, err := r.W.Coll(h, ci).(sgbucket.ViewStore).GetDDocs()
		if err != nil {
			r.dev("ddoc.list", []string{"C11", "C12"}, "GetDDocs(%s) failed: %v", r.W.Cfg.Colls[ci], err)
			continue
		}
		want := r.ddocs(ci)
		names := func() (a, b []string) {
			for k := range got {
				if !strings.HasPrefix(k, "fresh") {
					a = append(a, k)
				}
			}
			for k := range want {
				b = append(b, k)
			}
			sort.Strings(a)
			sort.Strings(b)
			return
		}
		a, b := names()
		if !reflect.DeepEqual(a, b) && !(len(a) == 0 && len(b) == 0) {
			r.dev("ddoc.list", []string{"C11", "C12"}, "collection %s has design docs %v, expected %v", r.W.Cfg.Colls[ci], a, b)
		}
	}
}

var freshSerial int

// ViewStep queries a view and, for stale=false, compares with the independent evaluation and
// with a freshly created identical view.
func (r *Run) ViewStep(op Op) {
	c12 := []string{"C12"}
	tr := StepTrace{Op: op, Outcome: "rows-equal"}
	defer func() { r.Trace = append(r.Trace, tr) }()
	nDev := len(r.Devs)
	defer func() {
		if len(r.Devs) > nDev {
			tr.Outcome = "DEVIATION"
		}
	}()
	// learn the datatype of every current version from its live event - but only when some
	// document's datatype is still unknown: the sync writes (and removes) a sentinel document, and a
	// query that is always preceded by a write through handle 0 would never see an index that
	// wrongly believes itself up to date
	for _, k := range r.W.Model.Keys(op.C) {
		if ki := r.W.Model.Info(op.C, k); ki.St.HasBody() && ki.IsJSON == nil {
			r.SyncFeeds()
			break
		}
	}
	r.step = r.nDo - 1
	vo := op.View
	spec, ok := r.ddocs(op.C)[vo.DDoc][vo.Name]
	vs := r.W.Coll(op.H, op.C).(sgbucket.ViewStore)
	if vo.Q.Cancelled {
		cctx, cancel := context.WithCancel(ctx)
		cancel()
		_, _ = vs.View(cctx, vo.DDoc, vo.Name, vo.Q.Params())
		tr.Outcome = "cancelled"
		return
	}
	res, err := vs.View(ctx, vo.DDoc, vo.Name, vo.Q.Params())
	if !ok {
		if err == nil {
			r.dev("view.missing", c12, "query of a view that does not exist (%s/%s) succeeded with %d rows", vo.DDoc, vo.Name, len(res.Rows))
		}
		tr.Outcome = "no-such-view"
		return
	}
	if err != nil {
		r.dev("view.err", c12, "View(%s/%s, %v) failed: %v", vo.DDoc, vo.Name, vo.Q.Params(), err)
		return
	}
	if vo.Q.Stale != "" {
		tr.Outcome = "stale-" + vo.Q.Stale
		return
	}
	for _, k := range r.W.Model.Keys(op.C) {
		if ki := r.W.Model.Info(op.C, k); ki.St.HasBody() && ki.IsJSON == nil {
			// no feed told us whether this version is stored as JSON (a map function sees a
			// non-JSON body as an empty object): no expectation
			tr.Outcome = "datatype-unknown"
			return
		}
	}
	want := normRows(expectedViewRows(r, op.C, spec, *vo.Q))
	got := normRows(gotRows(res))
	if vo.Q.Limit > 0 {
		// several rows of one document under one key have no defined order, so a limit may cut
		// between them: with a limit only <key, id> is compared (values are checked by the
		// queries without limit)
		want, got = dropValues(want), dropValues(got)
	}
	tr.Prior = fmt.Sprintf("rows=%d", len(want))
	if !rowsEqual(got, want) {
		if from := r.foreignRows(op.C, spec, got); from != "" && vo.Q.Limit == 0 {
			// a row this collection's documents cannot produce, equal to a row of another
			// collection's index: the query reached across collections
			r.Devs = append(r.Devs, Deviation{Clause: "view.foreign", Props: []string{"C11", "C12"}, Step: r.step,
				Msg: fmt.Sprintf("view %s over %s with %v returned %v: %s", spec.JS(), r.W.Cfg.Colls[op.C], vo.Q.Params(), got, from),
				Sig: "view.foreign"})
		}
		props := c12
		if r.DropHappened {
			// rows of documents / design documents that went away with a dropped collection are
			// C11's business too ("dropping a collection removes exactly its own documents, design
			// documents ...; re-creating it yields an empty collection")
			props = []string{"C12", "C11"}
		}
		r.Devs = append(r.Devs, Deviation{Clause: "view.rows", Props: props, Step: r.step,
			Msg: fmt.Sprintf("view %s (reduce %q) over %s with %v returned %v, the map function over the current documents gives %v", spec.JS(), spec.Reduce, r.W.Cfg.Colls[op.C], vo.Q.Params(), got, want),
			Sig: "view.rows"})
	}
	// differential: a freshly built identical view
	freshSerial++
	fname := fmt.Sprintf("fresh%d", freshSerial)
	if err := vs.PutDDoc(ctx, fname, designDoc(map[string]ViewSpec{"v": spec})); err != nil {
		r.dev("view.fresh", c12, "PutDDoc(fresh) failed: %v", err)
		return
	}
	fres, ferr := vs.View(ctx, fname, "v", vo.Q.Params())
	_ = vs.DeleteDDoc(fname)
	if ferr != nil {
		r.dev("view.fresh", c12, "fresh view failed: %v", ferr)
		return
	}
	f := normRows(gotRows(fres))
	if vo.Q.Limit > 0 {
		f = dropValues(f)
	}
	if !rowsEqual(f, got) {
		r.Devs = append(r.Devs, Deviation{Clause: "view.incremental", Props: c12, Step: r.step,
			Msg: fmt.Sprintf("incrementally maintained view %s over %s returned %v but a freshly built identical view returns %v", spec.JS(), r.W.Cfg.Colls[op.C], got, f),
			Sig: "view.incremental"})
	}
}

// foreignRows: does the (unreduced) result contain a row that no document of collection ci can
// produce through spec but that a view of another collection produces? Returns a description.
func (r *Run) foreignRows(ci int, spec ViewSpec, got []string) string {
	no := false
	own := map[string]bool{}
	for _, s := range normRows(expectedViewRows(r, ci, spec, ViewQuery{Reduce: &no})) {
		own[s] = true
	}
	for _, g := range got {
		if own[g] {
			continue
		}
		for cj := range r.W.Cfg.Colls {
			if cj == ci || r.W.Model.Colls[cj].Dropped {
				continue
			}
			for dd, views := range r.ddocs(cj) {
				for vn, sp := range views {
					for _, s := range normRows(expectedViewRows(r, cj, sp, ViewQuery{Reduce: &no})) {
						if s == g {
							return fmt.Sprintf("row %s cannot come from a document of this collection; it is a row of view %s/%s of collection %s", g, dd, vn, r.W.Cfg.Colls[cj])
						}
					}
				}
			}
		}
	}
	return ""
}

var ddocNames = []string{"dd1", "dd2"}
var viewNames = []string{"v1", "v2"}

func genPutDDoc(rt *rapid.T, r *Run) (Op, bool) {
	op := Op{K: "PutDDoc", C: pickColl(rt, r.W, "dd.coll")}
	if len(r.W.Handles) > 1 {
		op.H = rapid.IntRange(0, len(r.W.Handles)-1).Draw(rt, "dd.h")
	}
	if existing := r.ddocs(op.C); len(existing) > 0 && chance(rt, 20, "dd.reduceonly") {
		// the same design document again with nothing but a reduce function changed
		names := make([]string, 0, len(existing))
		for dd := range existing {
			names = append(names, dd)
		}
		sort.Strings(names)
		dd := pick(rt, names, "dd.ro.name")
		specs := map[string]ViewSpec{}
		vnames := make([]string, 0)
		for vn, sp := range existing[dd] {
			specs[vn] = sp
			vnames = append(vnames, vn)
		}
		sort.Strings(vnames)
		if len(vnames) > 0 {
			vn := pick(rt, vnames, "dd.ro.view")
			sp := specs[vn]
			choices := []string{"", "_count"}
			numeric := true
			for _, e := range sp.Emits {
				parts := strings.Split(e, "|")
				numeric = numeric && (parts[1] == "one" || (parts[1] == "n" && parts[0] == "n"))
			}
			if numeric {
				choices = append(choices, "_sum") // (_sum needs numeric values)
			}
			sp.Reduce = pick(rt, choices, "dd.ro.reduce")
			specs[vn] = sp
			op.View = &ViewOp{DDoc: dd, Specs: specs}
			return op, true
		}
	}
	specs := map[string]ViewSpec{}
	n := pick(rt, []int{1, 1, 1, 2, 2, 2, 2, 0}, "dd.nviews") // (a design document may have no views at all)
	for i := 0; i < n; i++ {
		specs[viewNames[i]] = genViewSpec(rt)
	}
	op.View = &ViewOp{DDoc: pick(rt, ddocNames, "dd.name"), Specs: specs}
	return op, true
}

func genDeleteDDoc(rt *rapid.T, r *Run) (Op, bool) {
	op := Op{K: "DeleteDDoc", C: pickColl(rt, r.W, "dd.coll")}
	op.View = &ViewOp{DDoc: pick(rt, ddocNames, "dd.name")}
	return op, true
}

func genViewQueryOp(rt *rapid.T, r *Run) (Op, bool) {
	// prefer a view that exists
	type ref struct {
		c        int
		dd, name string
	}
	var refs []ref
	for ci := range r.W.Cfg.Colls {
		dds := r.ddocs(ci)
		names := make([]string, 0, len(dds))
		for dd := range dds {
			names = append(names, dd)
		}
		sort.Strings(names)
		for _, dd := range names {
			vn := make([]string, 0)
			for v := range dds[dd] {
				vn = append(vn, v)
			}
			sort.Strings(vn)
			for _, v := range vn {
				refs = append(refs, ref{ci, dd, v})
			}
		}
	}
	if len(refs) == 0 {
		return Op{}, false
	}
	ref0 := pick(rt, refs, "view.ref")
	op := Op{K: "View", C: ref0.c}
	if len(r.W.Handles) > 1 {
		op.H = rapid.IntRange(0, len(r.W.Handles)-1).Draw(rt, "view.h")
	}
	q := genViewQuery(rt, r.ddocs(ref0.c)[ref0.dd][ref0.name])
	if chance(rt, 12, "view.stale") {
		q.Stale = "ok"
	} else if chance(rt, 8, "view.cancelled") {
		q.Cancelled = true
	}
	op.View = &ViewOp{DDoc: ref0.dd, Name: ref0.name, Q: &q}
	return op, true
}

func dropValues(rows []string) []string {
	out := make([]string, len(rows))
	for i, r := range rows {
		parts := strings.SplitN(r, "|", 3)
		out[i] = parts[0] + "|" + parts[1]
	}
	return out
}
