package h

import (
	"strings"
	"time"
)

// Histories are generated model-aware (each draw depends on the state the earlier steps built), so
// rapid's bit-stream shrinker rarely manages to delete steps. The recorded history however is a
// list of concrete ops with *symbolic* CAS / expiry arguments, so it can be minimised directly:
// delta debugging (ddmin) over the step list, re-executing each candidate through the same engine
// and keeping it if the same oracle clause still fails for the same entry point.

func devKey(d Deviation) string {
	parts := strings.Split(d.Sig, "|")
	if len(parts) >= 2 {
		return d.Clause + "|" + parts[1]
	}
	return d.Clause
}

// DDMin is the delta-debugging core: the shortest sub-list of steps (found within the budget) for
// which fails() still holds.
func DDMin(steps []Op, fails func([]Op) bool, deadline time.Time) []Op {
	steps = append([]Op(nil), steps...)
	n := 2
	for len(steps) >= 2 && time.Now().Before(deadline) {
		chunk := (len(steps) + n - 1) / n
		reduced := false
		for start := 0; start < len(steps) && time.Now().Before(deadline); start += chunk {
			end := start + chunk
			if end > len(steps) {
				end = len(steps)
			}
			cand := append(append([]Op(nil), steps[:start]...), steps[end:]...)
			if len(cand) > 0 && fails(cand) {
				steps = cand
				if n > 2 {
					n--
				}
				reduced = true
				break
			}
		}
		if !reduced {
			if chunk == 1 {
				break
			}
			n *= 2
			if n > len(steps) {
				n = len(steps)
			}
		}
	}
	return steps
}

// Minimize returns a (usually much) shorter replay that still violates the same clause.
func Minimize(rp *Replay, pr *Profile, st *Stats, target Deviation, budget time.Duration) *Replay {
	deadline := time.Now().Add(budget)
	saved := sentinelTimeout
	sentinelTimeout = 3 * time.Second
	defer func() { sentinelTimeout = saved }()
	want := devKey(target)
	fails := func(steps []Op, cfg Config) bool {
		cand := &Replay{Property: rp.Property, Test: rp.Test, Config: cfg, Steps: steps}
		run, err := ReplayCase(cand, pr)
		if err != nil {
			return false
		}
		defer run.Close()
		for _, d := range run.DevsFor(rp.Property) {
			if _, ok := tolerated(rp.Property, d); ok {
				continue
			}
			if devKey(d) == want {
				return true
			}
		}
		return false
	}
	steps := append([]Op(nil), rp.Steps...)
	cfg := rp.Config
	if !fails(steps, cfg) {
		return rp // not reproducible from the recorded history (e.g. timing): keep as is
	}
	steps = DDMin(steps, func(c []Op) bool { return fails(c, cfg) }, deadline)
	// simplify the configuration where the steps allow it
	try := func(mut func(c *Config, s []Op) bool) {
		if !time.Now().Before(deadline) {
			return
		}
		c2 := cfg
		c2.Feeds = append([]FeedCfg(nil), cfg.Feeds...)
		c2.Colls = append([]string(nil), cfg.Colls...)
		s2 := append([]Op(nil), steps...)
		if mut(&c2, s2) && fails(s2, c2) {
			cfg, steps = c2, s2
		}
	}
	try(func(c *Config, s []Op) bool {
		if !c.Disk {
			return false
		}
		for _, op := range s {
			if op.K == "Reopen" {
				return false
			}
		}
		c.Disk = false
		return true
	})
	try(func(c *Config, s []Op) bool {
		if c.Handles <= 1 {
			return false
		}
		c.Handles = 1
		for i := range s {
			s[i].H = 0
		}
		for i := range c.Feeds {
			c.Feeds[i].H = 0
		}
		return true
	})
	try(func(c *Config, s []Op) bool {
		if len(c.Feeds) == 0 || (pr != nil && pr.KeepFeeds) {
			return false
		}
		c.Feeds = nil
		return true
	})
	try(func(c *Config, s []Op) bool {
		if c.MaxDocSize == 0 {
			return false
		}
		c.MaxDocSize = 0
		return true
	})
	return &Replay{Property: rp.Property, Test: rp.Test, Config: cfg, Steps: steps, Extra: rp.Extra}
}
