package h

// Scheduled (parking-scheduler) scripts: C08 ordering, C09 start-up gap, C02/C18 windows, C15.

import (
	"encoding/json"
	"fmt"
	"sort"
	"strings"
	"sync"
	"testing"
	"time"

	sgbucket "github.com/couchbase/sg-bucket"
	"github.com/couchbaselabs/rosmar"
	"pgregory.net/rapid"
)

// SStep is one step of a concurrent script.
type SStep struct {
	Do   string   `json:"do"` // start | resume | await | finish
	Lane string   `json:"lane"`
	Op   *Op      `json:"op,omitempty"`
	Arm  []string `json:"arm,omitempty"`
}

type Script struct {
	Config Config         `json:"config"`
	Prefix []Op           `json:"prefix,omitempty"` // sequential set-up through the engine
	Steps  []SStep        `json:"steps"`
	Extra  map[string]any `json:"extra,omitempty"`
}

type laneOut struct {
	Op  Op
	Res Result
}

// scriptRun executes the lanes of a script. Every started lane is finished at the end.
type scriptRun struct {
	run     *Run
	s       *Sched
	outs    map[string]*laneOut
	order   []string // lanes in start order
	log     []string
	overlap int // lanes started while another lane was parked
	mu      sync.Mutex
}

func newScriptRun(sc *Script, prop string) (*scriptRun, error) {
	w, err := NewWorld(sc.Config)
	if err != nil {
		return nil, err
	}
	run := NewRun(w, prop)
	for _, op := range sc.Prefix {
		run.Do(op)
	}
	run.SyncFeeds()
	sr := &scriptRun{run: run, outs: map[string]*laneOut{}}
	sr.s = NewSched(w.Name)
	sr.s.Grace = 80 * time.Millisecond
	return sr, nil
}

func (sr *scriptRun) close() {
	sr.s.Stop()
	sr.run.Close()
}

func (sr *scriptRun) step(st SStep) string {
	var status string
	switch st.Do {
	case "start":
		out := &laneOut{Op: *st.Op}
		sr.outs[st.Lane] = out
		sr.order = append(sr.order, st.Lane)
		for _, other := range sr.order[:len(sr.order)-1] {
			if sr.s.Parked(other) != "" {
				sr.overlap++
				break
			}
		}
		status = sr.s.Start(st.Lane, st.Arm, func() { sr.run.W.exec(*st.Op, &out.Res) })
	case "resume":
		status = sr.s.Resume(st.Lane, st.Arm)
	case "await":
		status = sr.s.Await(st.Lane)
	}
	sr.log = append(sr.log, fmt.Sprintf("%s %s -> %s", st.Do, st.Lane, status))
	return status
}

// finishAll resumes every parked lane (in start order) until all lanes are done.
func (sr *scriptRun) finishAll() (hung []string) {
	deadline := time.Now().Add(callTimeout)
	for {
		pending := 0
		for _, name := range sr.order {
			sr.s.mu.Lock()
			l := sr.s.lanes[name]
			done, parked := l.done, l.parked
			sr.s.mu.Unlock()
			if done {
				continue
			}
			pending++
			if parked != "" {
				sr.s.Resume(name, nil)
			}
		}
		if pending == 0 {
			return nil
		}
		if time.Now().After(deadline) {
			for _, name := range sr.order {
				sr.s.mu.Lock()
				if !sr.s.lanes[name].done {
					hung = append(hung, name)
				}
				sr.s.mu.Unlock()
			}
			return hung
		}
		time.Sleep(2 * time.Millisecond)
	}
}

// ---- C08 (b): events reach each feed in CAS order whatever the order of posting ------------------

var laneOpKinds = []string{"Set", "SetRaw", "Add", "WriteCas", "Delete", "Incr", "SetXattrs", "Update", "WriteWithXattrs", "SetWithMeta", "WriteSubDoc"}

func genLaneOp(rt *rapid.T, i int, keys []string, ncoll int) Op {
	k := pick(rt, laneOpKinds, "lane.op")
	op := Op{K: k, Key: pick(rt, keys, "lane.key"), C: rapid.IntRange(0, ncoll-1).Draw(rt, "lane.coll")}
	body := []byte(fmt.Sprintf(`{"lane":%d}`, i))
	switch k {
	case "Set", "SetRaw", "Add":
		op.Body = body
	case "WriteCas":
		op.Body = body
		op.Cas = CasSpec{Kind: pick(rt, []string{"current", "zero"}, "lane.cas")}
	case "Incr":
		op.Amt, op.Def = 1, uint64(i)
	case "SetXattrs":
		op.X = map[string]string{"_sync": fmt.Sprintf(`{"lane":%d}`, i)}
	case "Update":
		op.Cb, op.Body = "set", body
	case "WriteWithXattrs":
		op.Body = body
		op.X = map[string]string{"_sync": fmt.Sprintf(`{"lane":%d}`, i)}
		op.Cas = CasSpec{Kind: pick(rt, []string{"current", "zero"}, "lane.cas")}
	case "SetWithMeta":
		op.Body, op.JSON, op.MetaCas = body, true, "above"
		op.Cas = CasSpec{Kind: "current"}
	case "WriteSubDoc":
		op.Path, op.Body = fmt.Sprintf("p%d", i), []byte(fmt.Sprint(i))
	}
	return op
}

func genOrderScript(rt *rapid.T) *Script {
	sc := &Script{Config: Config{Disk: chance(rt, 30, "disk"), Handles: rapid.IntRange(1, 2).Draw(rt, "handles"), Colls: allCollNames[:rapid.IntRange(1, 2).Draw(rt, "ncoll")]}}
	nfeeds := rapid.IntRange(1, 2).Draw(rt, "nfeeds")
	for i := 0; i < nfeeds; i++ {
		sc.Config.Feeds = append(sc.Config.Feeds, FeedCfg{H: rapid.IntRange(0, sc.Config.Handles-1).Draw(rt, "feed.h"), C: rapid.IntRange(0, len(sc.Config.Colls)-1).Draw(rt, "feed.c"), Multi: len(sc.Config.Colls) > 1 && chance(rt, 30, "feed.multi")})
	}
	keys := []string{"a", "b", "c"}
	for _, k := range keys {
		if chance(rt, 60, "prefix."+k) {
			sc.Prefix = append(sc.Prefix, Op{K: "Set", Key: k, C: 0, Body: []byte(`{"n":0}`)})
		}
	}
	n := rapid.IntRange(2, 4).Draw(rt, "lanes")
	var lanes []string
	for i := 0; i < n; i++ {
		name := fmt.Sprintf("L%d", i)
		lanes = append(lanes, name)
		op := genLaneOp(rt, i, keys, len(sc.Config.Colls))
		if sc.Config.Handles > 1 {
			op.H = rapid.IntRange(0, sc.Config.Handles-1).Draw(rt, "lane.h")
		}
		sc.Steps = append(sc.Steps, SStep{Do: "start", Lane: name, Op: &op, Arm: []string{"cas.beforePost", "meta.beforePost"}})
	}
	// resume in a generated order
	perm := rapid.Permutation(lanes).Draw(rt, "resume.order")
	for _, l := range perm {
		sc.Steps = append(sc.Steps, SStep{Do: "resume", Lane: l})
	}
	return sc
}

// runOrderScript executes the script and checks exactly-once + CAS order on every feed.
func runOrderScript(sc *Script) (devs []Deviation, sr *scriptRun, err error) {
	sr, err = newScriptRun(sc, "C08")
	if err != nil {
		return nil, nil, err
	}
	defer sr.close()
	w := sr.run.W
	for _, f := range w.Feeds {
		f.take()
	}
	for _, st := range sc.Steps {
		if sr.step(st) == "hang" {
			devs = append(devs, Deviation{Clause: "script.hang", Props: []string{"C08", "C20"}, Msg: fmt.Sprintf("lane %s neither finished nor reached a hook point: %v", st.Lane, sr.log)})
			return
		}
	}
	if hung := sr.finishAll(); hung != nil {
		devs = append(devs, Deviation{Clause: "script.hang", Props: []string{"C08", "C20"}, Msg: fmt.Sprintf("lanes %v never finished: %v", hung, sr.log)})
		return
	}
	sr.s.Stop()
	// which mutations succeeded, and with which CAS: read from the final documents and the results
	type mut struct {
		lane string
		c    int
		key  string
	}
	okLanes := map[string]bool{}
	for name, out := range sr.outs {
		if out.Res.Panic != "" {
			devs = append(devs, Deviation{Clause: "script.panic", Props: []string{"C08", "C20"}, Msg: fmt.Sprintf("lane %s panicked: %s", name, out.Res.Panic)})
		}
		if out.Res.Err == "" && !(out.Op.K == "Add" && !out.Res.Added) {
			okLanes[name] = true
		}
	}
	// sentinel, then inspect each feed
	sr.run.Exp = nil
	sr.run.syncOnly()
	for fi, f := range w.Feeds {
		evs := f.take()
		last := map[uint32]uint64{}
		seenCas := map[uint64]int{}
		nEvents := 0
		metaCas := map[uint64]bool{} // caller-supplied CAS values (*WithMeta) are exempt from the ordering clause
		for _, out := range sr.outs {
			if family(out.Op).meta {
				metaCas[out.Res.MetaCasArg] = true
			}
		}
		for _, ev := range evs {
			if strings.HasPrefix(string(ev.Key), sentinelPrefix) {
				continue
			}
			if metaCas[ev.Cas] {
				// counted below, not ordered
			} else if ev.Cas <= last[ev.CollectionID] {
				devs = append(devs, Deviation{Clause: "event.order", Props: []string{"C08"}, Sig: "event.order|scheduled",
					Msg: fmt.Sprintf("feed %d received the event for %q cas %#x after an event with cas %#x of the same collection (script: %v)", fi, ev.Key, ev.Cas, last[ev.CollectionID], sr.log)})
			}
			if ev.Cas > last[ev.CollectionID] && !metaCas[ev.Cas] {
				last[ev.CollectionID] = ev.Cas
			}
			seenCas[ev.Cas]++
			nEvents++
		}
		// exactly once: as many events as successful CAS-changing mutations on the covered
		// collections, all with different CAS values
		want := 0
		for name, out := range sr.outs {
			if f.covers(out.Op.C) && okLanes[name] {
				want++
			}
		}
		if nEvents != want {
			devs = append(devs, Deviation{Clause: "event.count", Props: []string{"C08"}, Sig: "event.count|scheduled",
				Msg: fmt.Sprintf("feed %d received %d events for %d successful mutations (script: %v)", fi, nEvents, want, sr.log)})
		}
		for cas, n := range seenCas {
			if n > 1 {
				devs = append(devs, Deviation{Clause: "event.duplicate", Props: []string{"C08"}, Sig: "event.duplicate|scheduled",
					Msg: fmt.Sprintf("feed %d received %d events with cas %#x (script: %v)", fi, n, cas, sr.log)})
			}
		}
	}
	return
}

// syncOnly: sentinel round trip without comparing against expected events.
func (r *Run) syncOnly() {
	saved := r.Exp
	r.Exp = nil
	w := r.W
	for ci := range w.Cfg.Colls {
		used := false
		for _, f := range w.Feeds {
			used = used || f.covers(ci)
		}
		if !used || w.Model.Colls[ci].Dropped {
			continue
		}
		ds := w.Coll(0, ci)
		if err := ds.SetRaw(sentinelPrefix, 0, nil, []byte("s")); err != nil {
			r.dev("feed.sentinel.write", []string{"C08"}, "sentinel write failed: %v", err)
			continue
		}
		_, cas, _ := ds.GetRaw(sentinelPrefix)
		cas, err := ds.Remove(sentinelPrefix, cas)
		if err != nil {
			r.dev("feed.sentinel.write", []string{"C08"}, "sentinel remove failed: %v", err)
			continue
		}
		for fi, f := range w.Feeds {
			if f.covers(ci) && !f.waitCas(cas, sentinelTimeout) {
				r.dev("feed.sentinel", []string{"C08", "C16"}, "feed %d never delivered the sentinel", fi)
			}
		}
	}
	r.Exp = saved
}

func scriptTest(t *testing.T, prop, test, rule string, gen func(rt *rapid.T) *Script, runf func(sc *Script) ([]Deviation, *scriptRun, error), nontrivial func(sc *Script, sr *scriptRun) bool) {
	st := statsFor(prop, test)
	st.Rule = rule
	judge := func(devs []Deviation) []Deviation {
		var out []Deviation
		for _, d := range devs {
			if !d.Has(prop) {
				continue
			}
			if id, ok := tolerated(prop, d); ok {
				st.mu.Lock()
				st.KnownHits[id]++
				st.mu.Unlock()
				continue
			}
			out = append(out, d)
		}
		return out
	}
	if replayMode() {
		rp := loadReplay(test)
		if rp == nil {
			t.Skip("replay file is for another test")
		}
		var sc Script
		if err := json.Unmarshal(rp.Extra, &sc); err != nil {
			t.Fatal(err)
		}
		devs, _, err := runf(&sc)
		if err != nil {
			t.Fatalf("infrastructure: %v", err)
		}
		st.Case(1, true, func() any { return sc })
		if ds := judge(devs); len(ds) > 0 {
			t.Fatalf("property %s violated by replay:%s", prop, devText(ds))
		}
		return
	}
	var once sync.Once
	rapid.Check(t, func(rt *rapid.T) {
		sc := gen(rt)
		devs, sr, err := runf(sc)
		if err != nil {
			rt.Fatalf("INFRA: %v", err)
		}
		b, _ := json.Marshal(sc)
		var logSig string
		if sr != nil {
			logSig = strings.Join(sr.log, ";")
		}
		st.Case(fnvString(scriptShape(sc)+logSig), nontrivial(sc, sr), func() any { return map[string]any{"script": sc, "log": sr.log} })
		if ds := judge(devs); len(ds) > 0 {
			once.Do(func() {
				saveReplay(&Replay{Property: prop, Test: test, Extra: b, Expect: ds})
				st.Violations++
			})
			rt.Fatalf("property %s violated (replay %s):%s", prop, replayPath(prop, test), devText(ds))
		}
	})
}

func scriptShape(sc *Script) string {
	var parts []string
	for _, s := range sc.Steps {
		p := s.Do + ":" + s.Lane
		if s.Op != nil {
			p += ":" + opLabel(*s.Op) + ":" + s.Op.Key
		}
		parts = append(parts, p)
	}
	sort.Strings(nil)
	return fmt.Sprintf("%v|%d|%s", sc.Config.Disk, len(sc.Config.Feeds), strings.Join(parts, ","))
}

func TestC08Order(t *testing.T) {
	scriptTest(t, "C08", "TestC08Order",
		"parking-scheduler scripts: 2-4 writer lanes (11 entry points, same or different keys, 1-2 handles, 1-2 collections) are started one after the other and held at the commit->post window (cas.beforePost / meta.beforePost), then released in a generated permutation; after a sentinel every feed must have received each successful mutation exactly once and in strictly increasing CAS order per collection; non-trivial = at least one lane was started while another lane was parked in the window and the release order differs from the start order; distinct by script shape and scheduler log",
		genOrderScript, runOrderScript,
		func(sc *Script, sr *scriptRun) bool {
			if sr == nil || sr.overlap == 0 {
				return false
			}
			var starts, resumes []string
			for _, s := range sc.Steps {
				if s.Do == "start" {
					starts = append(starts, s.Lane)
				} else if s.Do == "resume" {
					resumes = append(resumes, s.Lane)
				}
			}
			return strings.Join(starts, ",") != strings.Join(resumes, ",")
		})
}

var _ = sgbucket.FeedOpMutation

// ---- C09 (b): a feed that starts while writers commit loses nothing ------------------------------

func genGapScript(rt *rapid.T) *Script {
	sc := &Script{Config: Config{Disk: chance(rt, 30, "disk"), Handles: rapid.IntRange(1, 2).Draw(rt, "handles"), Colls: allCollNames[:1]}, Extra: map[string]any{}}
	keys := []string{"a", "b", "c"}
	for _, k := range keys {
		if chance(rt, 60, "prefix."+k) {
			sc.Prefix = append(sc.Prefix, Op{K: "Set", Key: k, Body: []byte(`{"n":0}`)})
		}
	}
	if chance(rt, 40, "prefix.del") {
		sc.Prefix = append(sc.Prefix, Op{K: "Delete", Key: pick(rt, keys, "prefix.delkey")})
	}
	sc.Extra["backfill"] = pick(rt, []string{"zero", "zero", "none"}, "gap.backfill")
	sc.Extra["feedHandle"] = rapid.IntRange(0, sc.Config.Handles-1).Draw(rt, "gap.h")
	// the feed start parks after its backfill; writers run while it is parked; then it is resumed
	sc.Steps = append(sc.Steps, SStep{Do: "start", Lane: "F", Arm: []string{"feed.afterBackfill"}})
	n := rapid.IntRange(1, 3).Draw(rt, "writers")
	for i := 0; i < n; i++ {
		op := genLaneOp(rt, i, keys, 1)
		if sc.Config.Handles > 1 {
			op.H = rapid.IntRange(0, sc.Config.Handles-1).Draw(rt, "lane.h")
		}
		var arm []string
		if chance(rt, 30, "gap.parkwriter") {
			arm = []string{"cas.beforePost"}
		}
		sc.Steps = append(sc.Steps, SStep{Do: "start", Lane: fmt.Sprintf("L%d", i), Op: &op, Arm: arm})
	}
	sc.Steps = append(sc.Steps, SStep{Do: "resume", Lane: "F"})
	return sc
}

func runGapScript(sc *Script) (devs []Deviation, sr *scriptRun, err error) {
	sr, err = newScriptRun(sc, "C09")
	if err != nil {
		return nil, nil, err
	}
	defer sr.close()
	w := sr.run.W
	c09 := []string{"C09"}
	var col *Collector
	backfill := uint64(sgbucket.FeedNoBackfill)
	if b, _ := sc.Extra["backfill"].(string); b == "zero" {
		backfill = 0
	}
	fh := 0
	switch v := sc.Extra["feedHandle"].(type) {
	case int:
		fh = v
	case float64:
		fh = int(v)
	}
	for _, st := range sc.Steps {
		var status string
		if st.Lane == "F" && st.Do == "start" {
			sr.order = append(sr.order, "F")
			sr.outs["F"] = &laneOut{}
			status = sr.s.Start("F", st.Arm, func() {
				c, e := w.startFeed(FeedCfg{H: fh, C: 0}, backfill, false, "")
				if e != nil {
					sr.outs["F"].Res.Err = e.Error()
				}
				sr.mu.Lock()
				col = c
				sr.mu.Unlock()
			})
			sr.log = append(sr.log, "start F -> "+status)
		} else {
			status = sr.step(st)
		}
		if status == "hang" {
			devs = append(devs, Deviation{Clause: "script.hang", Props: []string{"C09", "C20"}, Msg: fmt.Sprintf("lane %s hangs: %v", st.Lane, sr.log)})
			return
		}
	}
	if hung := sr.finishAll(); hung != nil {
		devs = append(devs, Deviation{Clause: "script.hang", Props: []string{"C09", "C20"}, Msg: fmt.Sprintf("lanes %v never finished: %v", hung, sr.log)})
		return
	}
	sr.s.Stop()
	sr.mu.Lock()
	feed := col
	sr.mu.Unlock()
	if feed == nil {
		devs = append(devs, Deviation{Clause: "gap.start", Props: c09, Msg: "StartDCPFeed failed: " + sr.outs["F"].Res.Err})
		return
	}
	w.Feeds = append(w.Feeds, feed)
	sr.run.syncOnly()
	evs := feed.take()
	lastCas := map[string]uint64{}
	for _, ev := range evs {
		if ev.Opcode == sgbucket.FeedOpBeginBackfill || ev.Opcode == sgbucket.FeedOpEndBackfill {
			continue
		}
		lastCas[string(ev.Key)] = ev.Cas
	}
	// every key's final version was delivered by backfill or live
	for _, k := range []string{"a", "b", "c"} {
		st, _ := Observe(w.Coll(0, 0), k, []string{"_sync"})
		if !st.Present {
			continue
		}
		mutatedInScript := false
		for _, out := range sr.outs {
			if out.Op.Key == k && out.Res.Err == "" {
				mutatedInScript = true
			}
		}
		if backfill != 0 && !mutatedInScript {
			continue // no backfill requested and nothing changed while the feed was starting
		}
		if backfill != 0 {
			// without backfill only mutations that *complete after StartDCPFeed returned* are owed;
			// a mutation that committed while the feed was starting may legitimately be missed
			continue
		}
		if lastCas[k] != st.Cas {
			devs = append(devs, Deviation{Clause: "gap.lost", Props: c09, Sig: "gap.lost",
				Msg: fmt.Sprintf("key %q: final version has cas %#x but the last event the feed (backfill from 0 + live) received for it has cas %#x: a mutation that committed while the feed was starting was delivered neither by backfill nor live (script: %v)", k, st.Cas, lastCas[k], sr.log)})
		}
	}
	return
}

func TestC09Gap(t *testing.T) {
	scriptTest(t, "C09", "TestC09Gap",
		"parking-scheduler scripts: StartDCPFeed(backfill from 0, live) is held between the end of its backfill and its registration for live events (feed.afterBackfill) while 1-3 writer lanes commit (some of them held at cas.beforePost across the start), then released; after a sentinel the last event the feed received for each key must be the key's final version; non-trivial = at least one write committed while the feed start was parked; distinct by script shape and scheduler log",
		genGapScript, runGapScript,
		func(sc *Script, sr *scriptRun) bool {
			if sr == nil {
				return false
			}
			for _, l := range sr.log {
				if strings.HasPrefix(l, "start F -> parked") {
					return sr.overlap > 0
				}
			}
			return false
		})
}

// ---- C02 (b) / C18 (b): a second writer inside the read->write window -----------------------------

// genWindowScript: lane A is a read-modify-write call (WriteSubDoc / SubdocInsert / Update /
// WriteUpdateWithXattrs) held inside its window; lane B writes the same document; A is released.
func genWindowScript(rt *rapid.T) *Script {
	sc := &Script{Config: Config{Disk: chance(rt, 25, "disk"), Handles: rapid.IntRange(1, 2).Draw(rt, "handles"), Colls: allCollNames[:1]}, Extra: map[string]any{}}
	doc := map[string]any{"p0": 1.0, "p1": "x", "nest": map[string]any{"a": 1.0}}
	sc.Prefix = []Op{{K: "WriteWithXattrs", Key: "a", Body: mustJSON(doc), X: map[string]string{"_sync": `{"seq":1}`}, Cas: CasSpec{Kind: "zero"}}}
	switch {
	case chance(rt, 15, "win.tomb"):
		sc.Prefix = append(sc.Prefix, Op{K: "Delete", Key: "a"})
	case chance(rt, 12, "win.absent"):
		sc.Prefix = nil // the key does not exist at all when A reads
	}
	kindA := pick(rt, []string{"WriteSubDoc", "WriteSubDoc", "SubdocInsert", "Update", "WriteUpdateWithXattrs"}, "win.a")
	a := Op{K: kindA, Key: "a"}
	switch kindA {
	case "WriteSubDoc":
		a.Path = pick(rt, []string{"pa", "nest.b", "p0"}, "win.path")
		a.Body = []byte(`"A"`)
		a.Cas = CasSpec{Kind: pick(rt, []string{"zero", "zero", "current"}, "win.cas")}
	case "SubdocInsert":
		a.Path = pick(rt, []string{"pa", "nest.b"}, "win.path")
		a.Body = []byte(`"A"`)
		a.Cas = CasSpec{Kind: pick(rt, []string{"zero", "current"}, "win.cas")}
	case "Update":
		a.Cb = "append" // the callback appends a marker to what it is shown (script-specific)
	case "WriteUpdateWithXattrs":
		a.Cb = "append"
		a.XKeys = []string{"_sync"}
	}
	kindB := pick(rt, []string{"WriteSubDoc", "Set", "Delete", "WriteCas", "SetXattrs", "Incr", "Update"}, "win.b")
	b := Op{K: kindB, Key: "a"}
	switch kindB {
	case "WriteSubDoc":
		b.Path, b.Body = "pb", []byte(`"B"`)
	case "Set":
		b.Body = []byte(`{"p0":2,"fromB":true}`)
	case "WriteCas":
		b.Body, b.Cas = []byte(`{"p0":3,"fromB":true}`), CasSpec{Kind: "current"}
	case "SetXattrs":
		b.X = map[string]string{"_vv": `{"b":1}`}
	case "Incr":
		b.Key = "a"
		b.Amt, b.Def = 1, 1
	case "Update":
		b.Cb, b.Body = "set", []byte(`{"p0":4,"fromB":true}`)
	}
	if sc.Config.Handles > 1 {
		b.H = 1
	}
	arm := []string{"subdoc.betweenReadWrite", "callback"}
	sc.Steps = []SStep{{Do: "start", Lane: "A", Op: &a, Arm: arm}}
	// a cas-0 sub-document write may lose its race several times in a row: each time it re-reads, it
	// is held again and another write slips in (an unconditional write must win in the end, however
	// often that happens)
	rounds := 1
	if (kindA == "WriteSubDoc" || kindA == "SubdocInsert") && a.Cas.Kind == "zero" {
		rounds = pick(rt, []int{1, 1, 1, 1, 2, 3, 5, 11, 12}, "win.rounds")
	}
	for r := 1; r < rounds; r++ {
		mid := Op{K: "WriteSubDoc", Key: "a", Path: fmt.Sprintf("r%d", r), Body: []byte(`"B"`), H: b.H}
		sc.Steps = append(sc.Steps, SStep{Do: "start", Lane: fmt.Sprintf("B%d", r), Op: &mid}, SStep{Do: "resume", Lane: "A", Arm: arm})
	}
	sc.Steps = append(sc.Steps, SStep{Do: "start", Lane: "B", Op: &b}, SStep{Do: "resume", Lane: "A"})
	return sc
}

// execWindowA runs lane A's op; Update / WriteUpdateWithXattrs callbacks park at "callback" on
// their first invocation and append a marker to the document they are shown.
func (sr *scriptRun) execWindowA(op Op, out *laneOut) {
	w := sr.run.W
	ds := w.Coll(op.H, op.C)
	calls := 0
	edit := func(current []byte) []byte {
		var m map[string]any
		if current == nil || json.Unmarshal(current, &m) != nil || m == nil {
			m = map[string]any{}
		}
		m["fromA"] = true
		return mustJSON(m)
	}
	switch {
	case op.K == "Update" && op.Cb == "append":
		cas, err := ds.Update(op.Key, 0, func(current []byte) ([]byte, *uint32, bool, error) {
			calls++
			out.Res.Cb = append(out.Res.Cb, CbObs{Body: append([]byte(nil), current...)})
			if current == nil {
				out.Res.Cb[len(out.Res.Cb)-1].Body = nil
			}
			if calls == 1 {
				sr.s.ParkHere("callback")
			}
			return edit(current), nil, false, nil
		})
		out.Res.Cas, out.Res.Err = cas, errClass(err)
	case op.K == "WriteUpdateWithXattrs" && op.Cb == "append":
		cas, err := ds.WriteUpdateWithXattrs(ctx, op.Key, op.XKeys, 0, nil, &sgbucket.MutateInOptions{}, func(doc []byte, xattrs map[string][]byte, cas uint64) (sgbucket.UpdatedDoc, error) {
			calls++
			obs := CbObs{Body: doc, Cas: cas, X: map[string]string{}}
			for k, v := range xattrs {
				obs.X[k] = string(v)
			}
			out.Res.Cb = append(out.Res.Cb, obs)
			if calls == 1 {
				sr.s.ParkHere("callback")
			}
			return sgbucket.UpdatedDoc{Doc: edit(doc), Xattrs: map[string][]byte{"_sync": []byte(fmt.Sprintf(`{"seq":%d}`, 100+calls))}}, nil
		})
		out.Res.Cas, out.Res.Err = cas, errClass(err)
	default:
		w.exec(op, &out.Res)
	}
}

func runWindowScript(prop string) func(sc *Script) ([]Deviation, *scriptRun, error) {
	return func(sc *Script) (devs []Deviation, sr *scriptRun, err error) {
		sr, err = newScriptRun(sc, prop)
		if err != nil {
			return nil, nil, err
		}
		defer sr.close()
		w := sr.run.W
		props := []string{"C02", "C03", "C18"}
		bad := func(clause, f string, a ...any) {
			devs = append(devs, Deviation{Clause: clause, Props: props, Sig: clause, Msg: fmt.Sprintf(f, a...) + fmt.Sprintf(" (script: %v)", sr.log)})
		}
		before, _ := Observe(w.Coll(0, 0), "a", []string{"_sync", "_vv"})
		var afterB St
		for _, st := range sc.Steps {
			var status string
			if st.Lane == "A" && st.Do == "start" {
				out := &laneOut{Op: *st.Op}
				sr.outs["A"] = out
				sr.order = append(sr.order, "A")
				// resolve A's CAS argument against the state *before* B runs (that is the version A "read")
				status = sr.s.Start("A", st.Arm, func() { sr.execWindowA(*st.Op, out) })
				sr.log = append(sr.log, "start A -> "+status)
			} else {
				status = sr.step(st)
			}
			if strings.HasPrefix(st.Lane, "B") && st.Do == "start" {
				if status == "running" {
					status = sr.s.Await(st.Lane)
					sr.log = append(sr.log, "await "+st.Lane+" -> "+status)
				}
				afterB, _ = Observe(w.Coll(0, 0), "a", []string{"_sync", "_vv"})
			}
			if status == "hang" {
				bad("script.hang", "lane %s hangs", st.Lane)
				return
			}
		}
		if hung := sr.finishAll(); hung != nil {
			bad("script.hang", "lanes %v never finished", hung)
			return
		}
		sr.s.Stop()
		final, cdevs := Observe(w.Coll(0, 0), "a", []string{"_sync", "_vv"})
		devs = append(devs, cdevs...)
		a, b := sr.outs["A"], sr.outs["B"]
		inWindow := strings.Contains(strings.Join(sr.log, ";"), "start A -> parked")
		bChanged := !afterB.Equal(before)
		if a.Res.Panic != "" || b.Res.Panic != "" {
			bad("script.panic", "panic: A=%q B=%q", a.Res.Panic, b.Res.Panic)
			return
		}
		if !inWindow || !bChanged {
			return // A never reached its window (e.g. refused earlier) or B changed nothing: nothing to judge
		}
		aOK := a.Res.Err == ""
		switch a.Op.K {
		case "WriteSubDoc", "SubdocInsert":
			if a.Res.CasClass == "current" {
				// A supplied the CAS of the version it read; B replaced that version: A must fail
				if aOK {
					bad("window.cas", "%s with the CAS of the version it read succeeded although %s replaced that version in between: before %s, after B %s, final %s", a.Op.K, b.Op.K, before, afterB, final)
				} else if !final.Equal(afterB) {
					bad("window.same", "%s failed (%s) but the document changed: after B %s, final %s", a.Op.K, a.Res.Err, afterB, final)
				}
				return
			}
			// cas 0: A retries on top of B's version: the result is B's document with A's property
			if !aOK {
				if afterB.Body == nil || !jsonObject(afterB.Body) || a.Op.K == "SubdocInsert" && !afterB.HasBody() {
					if !final.Equal(afterB) {
						bad("window.same", "%s failed (%s) but the document changed", a.Op.K, a.Res.Err)
					}
					return // B made the document unsuitable (deleted / non-object): refusing is right
				}
				if a.Res.Err == "pathnotfound" || a.Res.Err == "pathmismatch" || a.Res.Err == "pathexists" {
					if !final.Equal(afterB) {
						bad("window.same", "%s failed (%s) but the document changed", a.Op.K, a.Res.Err)
					}
					return
				}
				if !final.Equal(afterB) {
					bad("window.same", "%s failed (%s) but the document changed", a.Op.K, a.Res.Err)
				}
				if a.Res.Err == "cas" || a.Res.Err == "exists" || a.Res.Err == "missing" {
					// "no concurrent update of another property is lost" is kept by failing too, but a
					// cas-0 sub-document write is an unconditional read-modify-write: applied atomically
					// after B it succeeds on this document (a JSON object), so it must not report a
					// conflict with the write that slipped into its window
					bad("window.retry", "%s with cas 0 failed (%s) after %s changed the document in its window, although the document then was %q", a.Op.K, a.Res.Err, b.Op.K, afterB.Body)
				}
				return
			}
			want := applySubdoc(afterB.Body, a.Op.Path, a.Op.Body)
			if final.Body == nil || !jsonEqual(final.Body, want) {
				bad("window.lost", "%s (cas 0) raced with %s: final document %q, expected %s's result with A's property: %s (after B: %q)", a.Op.K, b.Op.K, final.Body, b.Op.K, want, afterB.Body)
			}
		case "Update", "WriteUpdateWithXattrs":
			if !aOK {
				// giving up is allowed (the properties only forbid storing on top of a version the
				// callback was not shown), but then nothing may have changed
				if !final.Equal(afterB) {
					bad("window.same", "%s failed (%s) but the document changed: after B %s, final %s", a.Op.K, a.Res.Err, afterB, final)
				}
				return
			}
			last := a.Res.Cb[len(a.Res.Cb)-1]
			var shownWant []byte
			if afterB.HasBody() {
				shownWant = afterB.Body
			}
			if string(last.Body) != string(shownWant) || (last.Body == nil) != (shownWant == nil) {
				bad("window.shown", "%s stored its callback's result although the callback was last shown %q and the document was %q at that time", a.Op.K, last.Body, shownWant)
			}
			var m map[string]any
			if final.Body == nil || json.Unmarshal(final.Body, &m) != nil || m["fromA"] != true {
				bad("window.lost", "%s: final document %q does not carry the callback's edit", a.Op.K, final.Body)
			}
			if afterB.HasBody() && jsonObject(afterB.Body) {
				var mb map[string]any
				_ = json.Unmarshal(afterB.Body, &mb)
				for k, v := range mb {
					if fmt.Sprint(m[k]) != fmt.Sprint(v) {
						bad("window.lost", "%s overwrote %s's update: after B %q, final %q", a.Op.K, b.Op.K, afterB.Body, final.Body)
						break
					}
				}
			}
			// (Update shows its callback the body only: a change that leaves the body as it was - an
			// xattr written to a document without body - does not call for a second invocation)
			visible := a.Op.K == "WriteUpdateWithXattrs" || afterB.HasBody() != before.HasBody() || string(afterB.Body) != string(before.Body)
			if len(a.Res.Cb) < 2 && visible {
				bad("window.shown", "%s invoked its callback only once although the document changed before its write", a.Op.K)
			}
		}
		return
	}
}

func jsonObject(b []byte) bool {
	var m map[string]any
	return json.Unmarshal(b, &m) == nil && m != nil
}

// applySubdoc: reference for "set property at dotted path" on a JSON object (nil doc = {}).
func applySubdoc(doc []byte, path string, val []byte) []byte {
	var m map[string]any
	if doc == nil || json.Unmarshal(doc, &m) != nil || m == nil {
		m = map[string]any{}
	}
	var v any
	_ = json.Unmarshal(val, &v)
	comps := strings.Split(path, ".")
	cur := m
	for _, c := range comps[:len(comps)-1] {
		next, ok := cur[c].(map[string]any)
		if !ok {
			return mustJSON(m)
		}
		cur = next
	}
	if v == nil {
		delete(cur, comps[len(comps)-1])
	} else {
		cur[comps[len(comps)-1]] = v
	}
	return mustJSON(m)
}

const windowRule = "parking-scheduler scripts: lane A (WriteSubDoc / SubdocInsert with cas 0 or the current CAS, Update, WriteUpdateWithXattrs) is held between its read and its write (subdoc.betweenReadWrite, or inside its callback); lane B (WriteSubDoc of another property, Set, Delete, WriteCas, SetXattrs, Incr, Update) then changes the same document through the same or another handle; A is released. A with a supplied CAS must fail and change nothing; A with cas 0 / a callback must end up on top of B's version (both effects present, callback shown B's version on its last invocation); non-trivial = A really parked inside its window and B changed the document; distinct by script shape and scheduler log"

func windowNonTrivial(sc *Script, sr *scriptRun) bool {
	return sr != nil && strings.Contains(strings.Join(sr.log, ";"), "start A -> parked") && sr.outs["B"] != nil && sr.outs["B"].Res.Err == ""
}

func TestC02Race(t *testing.T) {
	scriptTest(t, "C02", "TestC02Race", windowRule, genWindowScript, runWindowScript("C02"), windowNonTrivial)
}

func TestC18Race(t *testing.T) {
	scriptTest(t, "C18", "TestC18Race", windowRule, genWindowScript, runWindowScript("C18"), windowNonTrivial)
}

// ---- C15: checkpointed feeds resume without skipping ----------------------------------------------

type cpRun struct {
	col      *Collector
	maxCas   map[int]uint64 // per collection: highest CAS its callback received
	received int
	stopped  bool
	prevCp   map[int]uint64
}

// cpFeedColls: the collections the checkpointed feed of a script covers (one: Collection.StartDCPFeed;
// several: Bucket.StartDCPFeed with Scopes, i.e. one independent part per collection, each with its
// own checkpoint document in its own collection).
func cpFeedColls(sc *Script) []int {
	if m, _ := sc.Extra["multi"].(bool); m {
		return []int{1, 2}
	}
	return []int{0}
}

func genCheckpointScript(rt *rapid.T) *Script {
	multi := chance(rt, 40, "cp.multi")
	sc := &Script{Config: Config{Disk: chance(rt, 30, "disk"), Handles: pick(rt, []int{1, 2, 2, 3}, "handles"), Colls: allCollNames[:1]}, Extra: map[string]any{}}
	if multi {
		sc.Config.Colls = allCollNames[:3]
		sc.Extra["multi"] = true
	}
	fcolls := cpFeedColls(sc)
	// with a clock that stands still consecutive mutations get consecutive CAS values (cas, cas+1, ...)
	sc.Extra["frozenClock"] = chance(rt, 50, "cp.frozen")
	// (the low bits of the standing clock vary: consecutive CAS values around any byte boundary)
	sc.Extra["frozenLow"] = pick(rt, []int{0, 0x7e, 0x81, 0xd0, 0xfd}, "cp.frozenlow")
	keys := []string{"a", "b", "c", "d"}
	for _, ci := range fcolls {
		for _, k := range keys[:2] {
			sc.Prefix = append(sc.Prefix, Op{K: "Set", C: ci, Key: k, Body: []byte(`{"n":0}`)})
		}
	}
	n := rapid.IntRange(6, 18).Draw(rt, "cp.steps")
	lane := 0
	feedOn, parkedW := false, ""
	feedParked := false           // the running feed's start is held between backfill and registration
	gatedGen := map[string]bool{} // "" = every collection of the feed, else one collection index
	anyGated := func() bool {
		for _, g := range gatedGen {
			if g {
				return true
			}
		}
		return false
	}
	gateTarget := func() string {
		if !multi || chance(rt, 30, "cp.gateall") {
			return ""
		}
		return fmt.Sprint(pick(rt, fcolls, "cp.gatecoll"))
	}
	write := func(park bool) {
		op := genLaneOp(rt, lane, keys, 1)
		op.C = pick(rt, fcolls, "cp.wcoll")
		if sc.Config.Handles > 1 {
			op.H = rapid.IntRange(0, sc.Config.Handles-1).Draw(rt, "cp.wh") // the feed is started through handle 0
		}
		if op.K == "SetWithMeta" {
			op.K, op.MetaCas = "Set", "" // the property is about the regular write API
		}
		name := fmt.Sprintf("W%d", lane)
		lane++
		st := SStep{Do: "start", Lane: name, Op: &op}
		if park && parkedW == "" && chance(rt, 40, "cp.park") {
			st.Arm = []string{"cas.beforePost"}
			parkedW = name
		}
		sc.Steps = append(sc.Steps, st)
	}
	for i := 0; i < n; i++ {
		choices := []string{"write", "write", "gateCb", "plainStop"}
		if !feedOn {
			choices = append(choices, "startFeed", "startFeed", "midDeliveryStop")
			if multi {
				choices = append(choices, "staggeredStop", "staggeredStop")
			}
		} else {
			choices = append(choices, "stopFeed", "stopFeed")
		}
		if parkedW == "" {
			choices = append(choices, "writePark")
		} else {
			choices = append(choices, "resumeW", "resumeW")
		}
		if feedParked {
			choices = append(choices, "resumeFeed", "resumeFeed")
		}
		switch pick(rt, choices, "cp.step") {
		case "resumeFeed":
			// the held feed start goes on: what was written meanwhile (through any handle) must reach
			// the feed live, and the feed keeps running
			sc.Steps = append(sc.Steps, SStep{Do: "resumeFeed"})
			feedParked = false
		case "write", "writePark":
			write(true)
		case "resumeW":
			sc.Steps = append(sc.Steps, SStep{Do: "resume", Lane: parkedW})
			parkedW = ""
		case "plainStop":
			// another, ordinary feed on the same collection comes and goes (what it leaves behind
			// in the feed registry must not disturb the checkpointed feed)
			sc.Steps = append(sc.Steps, SStep{Do: "plainStop", Lane: fmt.Sprint(pick(rt, fcolls, "cp.plaincoll"))})
		case "startFeed":
			arm := []string{}
			if chance(rt, 30, "cp.parkfeed") {
				arm = []string{"feed.afterBackfill"}
				feedParked = true
			}
			sc.Steps = append(sc.Steps, SStep{Do: "startFeed", Lane: fmt.Sprintf("F%d", i), Arm: arm})
			feedOn = true
		case "stopFeed":
			sc.Steps = append(sc.Steps, SStep{Do: "stopFeed"})
			feedOn, feedParked = false, false
		case "gateCb":
			tg := gateTarget()
			if tg == "" && anyGated() {
				// "all" toggles everything open
				sc.Steps = append(sc.Steps, SStep{Do: "openCb"})
				gatedGen = map[string]bool{}
				break
			}
			if gatedGen[tg] {
				sc.Steps = append(sc.Steps, SStep{Do: "openCb", Lane: tg})
			} else {
				sc.Steps = append(sc.Steps, SStep{Do: "gateCb", Lane: tg})
			}
			gatedGen[tg] = !gatedGen[tg]
		case "midDeliveryStop":
			// start a run whose callback is held at its first event, stop it there, then let go:
			// the run delivers one event of its backfill and drops the rest
			sc.Steps = append(sc.Steps, SStep{Do: "openCb"}, SStep{Do: "gateCb"})
			sc.Steps = append(sc.Steps, SStep{Do: "startFeed", Lane: fmt.Sprintf("F%d", i)}, SStep{Do: "stopFeed"}, SStep{Do: "openCb"})
			gatedGen = map[string]bool{}
		case "staggeredStop":
			// several collections: every part of the feed is held in its callback with more events
			// queued behind it, the feed is stopped, and the parts are let go one after the other
			sc.Steps = append(sc.Steps, SStep{Do: "openCb"}, SStep{Do: "gateCb"}, SStep{Do: "startFeed", Lane: fmt.Sprintf("F%d", i)})
			for k := rapid.IntRange(1, 4).Draw(rt, "cp.stagwrites"); k > 0; k-- {
				write(false)
			}
			sc.Steps = append(sc.Steps, SStep{Do: "stopFeed"})
			order := append([]int{}, fcolls...)
			if chance(rt, 50, "cp.stagorder") {
				order[0], order[1] = order[1], order[0]
			}
			for _, ci := range order {
				sc.Steps = append(sc.Steps, SStep{Do: "openCb", Lane: fmt.Sprint(ci)}, SStep{Do: "pause"})
			}
			gatedGen = map[string]bool{}
		}
	}
	return sc
}

func runCheckpointScript(sc *Script) (devs []Deviation, sr *scriptRun, err error) {
	if frozen, _ := sc.Extra["frozenClock"].(bool); frozen {
		base := (rosmar.VerifGlobalHLCHighest()+0x100000)&^0xffff + 0x10000
		restore := rosmar.VerifSetGlobalClock(func() uint64 { return base })
		defer restore()
	}
	sr, err = newScriptRun(sc, "C15")
	if err != nil {
		return nil, nil, err
	}
	defer sr.close()
	w := sr.run.W
	if frozen, _ := sc.Extra["frozenClock"].(bool); frozen {
		// under a standing clock the CAS values are consecutive; writes to a scratch key move them
		// to where their low byte is the drawn one
		burn := 0
		switch low := sc.Extra["frozenLow"].(type) {
		case int:
			burn = low
		case float64:
			burn = int(low)
		}
		for i := 0; i < burn; i++ {
			_ = w.Coll(0, 0).SetRaw("burn", 0, nil, []byte("x"))
		}
	}
	fcolls := cpFeedColls(sc)
	multi := len(fcolls) > 1
	collOf := map[uint32]int{}
	for _, ci := range fcolls {
		collOf[w.Coll(0, ci).GetCollectionID()] = ci
	}
	c15 := []string{"C15"}
	bad := func(clause, f string, a ...any) {
		devs = append(devs, Deviation{Clause: clause, Props: c15, Sig: clause, Msg: fmt.Sprintf(f, a...) + fmt.Sprintf(" (script: %v)", sr.log)})
	}
	readCp := func(ci int) uint64 {
		var cp struct {
			LastSeq uint64 `json:"last_seq"`
		}
		if _, err := w.Coll(0, ci).Get("cp:cpfeed", &cp); err != nil {
			return 0
		}
		return cp.LastSeq
	}
	readCps := func() map[int]uint64 {
		m := map[int]uint64{}
		for _, ci := range fcolls {
			m[ci] = readCp(ci)
		}
		return m
	}
	feedArgs := func(c *Collector, dump bool) sgbucket.FeedArguments {
		args := sgbucket.FeedArguments{ID: "cpfeed", Backfill: sgbucket.FeedResume, Dump: dump, Terminator: c.term, DoneChan: c.done, CheckpointPrefix: "cp"}
		if multi {
			args.Scopes = map[string][]string{}
			for _, ci := range fcolls {
				n := dsName(w.Cfg.Colls[ci])
				args.Scopes[n.Scope] = append(args.Scopes[n.Scope], n.Collection)
			}
		}
		return args
	}
	start := func(args sgbucket.FeedArguments, cb sgbucket.FeedEventCallbackFunc) error {
		if multi {
			return w.Handles[0].StartDCPFeed(ctx, args, cb, nil)
		}
		return w.RColl(0, fcolls[0]).StartDCPFeed(ctx, args, cb, nil)
	}
	evColl := func(ev sgbucket.FeedEvent) int {
		if !multi {
			return fcolls[0]
		}
		return collOf[ev.CollectionID]
	}
	dkey := func(ci int, k string) string { return fmt.Sprintf("%d/%s", ci, k) }
	var runs []*cpRun
	var cur *cpRun
	delivered := map[string]map[uint64]bool{} // collection/key -> CAS values some run delivered
	var dmu sync.Mutex
	startFeed := func(lane string, arm []string, dump bool) {
		r := &cpRun{prevCp: readCps(), maxCas: map[int]uint64{}}
		var col *Collector
		status := sr.s.Start(lane, arm, func() {
			c := &Collector{Cfg: FeedCfg{}, w: w, term: make(chan bool), done: make(chan struct{}), colls: fcolls}
			c.cond = sync.NewCond(&c.mu)
			cb := func(ev sgbucket.FeedEvent) bool {
				isDoc := ev.Opcode == sgbucket.FeedOpMutation || ev.Opcode == sgbucket.FeedOpDeletion
				ci := evColl(ev)
				if isDoc {
					// can be held at a gate (document events only, not the backfill markers), per collection
					sr.s.onHook(fmt.Sprintf("feed.callback.%d", ci), w.Name)
				}
				dmu.Lock()
				if isDoc {
					k := dkey(ci, string(ev.Key))
					if delivered[k] == nil {
						delivered[k] = map[uint64]bool{}
					}
					delivered[k][ev.Cas] = true
					if ev.Cas > r.maxCas[ci] {
						r.maxCas[ci] = ev.Cas
					}
					r.received++
				}
				dmu.Unlock()
				return true
			}
			go func() { <-c.done; c.doneClosed.Store(true) }()
			if e := start(feedArgs(c, dump), cb); e != nil {
				sr.mu.Lock()
				sr.log = append(sr.log, "StartDCPFeed error: "+e.Error())
				sr.mu.Unlock()
				return
			}
			sr.mu.Lock()
			col = c
			sr.mu.Unlock()
		})
		sr.order = append(sr.order, lane)
		sr.log = append(sr.log, fmt.Sprintf("startFeed %s -> %s", lane, status))
		r.col = nil
		cur = r
		runs = append(runs, r)
		_ = col
		// the collector becomes known once the lane is done; fetch lazily
		go func() {
			for i := 0; i < 2000; i++ {
				sr.mu.Lock()
				c := col
				sr.mu.Unlock()
				if c != nil {
					dmu.Lock()
					r.col = c
					dmu.Unlock()
					return
				}
				time.Sleep(2 * time.Millisecond)
			}
		}()
	}
	collector := func(r *cpRun) *Collector {
		for i := 0; i < 1000; i++ {
			dmu.Lock()
			c := r.col
			dmu.Unlock()
			if c != nil {
				return c
			}
			time.Sleep(2 * time.Millisecond)
		}
		return nil
	}
	// awaitDone: the run has ended and written its checkpoint(s); check the checkpoint clause
	awaitDone := func(r *cpRun) {
		c := collector(r)
		if c == nil {
			return
		}
		select {
		case <-c.done:
		case <-time.After(callTimeout):
			bad("cp.done", "a stopped feed never closed its done channel")
			return
		}
		for _, ci := range fcolls {
			cp := readCp(ci)
			dmu.Lock()
			max := r.maxCas[ci]
			dmu.Unlock()
			hi := max
			if r.prevCp[ci] > hi {
				hi = r.prevCp[ci]
			}
			if cp > hi {
				bad("cp.ahead", "the checkpoint of %s after a run is %#x, but the highest CAS that run's callback received for that collection is %#x (previous checkpoint %#x)", w.Cfg.Colls[ci], cp, max, r.prevCp[ci])
			}
			if cp < r.prevCp[ci] {
				bad("cp.back", "the checkpoint of %s went backwards: %#x after %#x", w.Cfg.Colls[ci], cp, r.prevCp[ci])
			}
		}
	}
	var pendingStops []*cpRun
	plainN := 0
	gated := map[int]bool{}
	targets := func(lane string) []int {
		if lane == "" {
			return fcolls
		}
		var ci int
		fmt.Sscanf(lane, "%d", &ci)
		return []int{ci}
	}
	for _, st := range sc.Steps {
		switch st.Do {
		case "startFeed":
			// a feed is only started again once its previous run has completely ended
			ready := true
			for _, r := range pendingStops {
				if c := collector(r); c != nil {
					select {
					case <-c.done:
					case <-time.After(300 * time.Millisecond):
						ready = false
					}
				}
			}
			if !ready {
				sr.log = append(sr.log, "startFeed skipped (previous run still ending)")
				continue
			}
			startFeed(st.Lane, st.Arm, false)
		case "stopFeed":
			if cur != nil && !cur.stopped {
				// finish a parked feed start first (cannot stop what is not started)
				for _, name := range sr.order {
					if strings.HasPrefix(name, "F") && sr.s.Parked(name) != "" {
						sr.s.Resume(name, nil)
					}
				}
				if c := collector(cur); c != nil {
					c.Stop()
					cur.stopped = true
					sr.log = append(sr.log, "stopFeed")
					select {
					case <-c.done:
						// ended promptly: the checkpoint document now is this run's checkpoint
						awaitDone(cur)
					case <-time.After(300 * time.Millisecond):
						// its exit is blocked (checkpoint write behind a parked writer, or a part held
						// in its callback): only the global checkpoint clause at the end applies to it
						pendingStops = append(pendingStops, cur)
					}
				}
			}
		case "gateCb":
			if st.Lane == "" {
				// (older replay files use one toggling step)
				all := true
				for _, ci := range fcolls {
					all = all && gated[ci]
				}
				if all {
					for _, ci := range fcolls {
						sr.s.OpenGate(fmt.Sprintf("feed.callback.%d", ci))
						gated[ci] = false
					}
					sr.log = append(sr.log, "openCb")
					continue
				}
			}
			for _, ci := range targets(st.Lane) {
				if !gated[ci] {
					sr.s.Gate(fmt.Sprintf("feed.callback.%d", ci))
					gated[ci] = true
				}
			}
			sr.log = append(sr.log, "gateCb "+st.Lane)
		case "openCb":
			for _, ci := range targets(st.Lane) {
				if gated[ci] {
					sr.s.OpenGate(fmt.Sprintf("feed.callback.%d", ci))
					gated[ci] = false
				}
			}
			sr.log = append(sr.log, "openCb "+st.Lane)
		case "plainStop":
			// runs in a lane of its own: StartDCPFeed needs the lock a lane parked between commit and
			// post (or between backfill and registration) holds, and then simply finishes later
			ci := targets(st.Lane)[0]
			plainN++
			lane := fmt.Sprintf("P%d", plainN)
			status := sr.s.Start(lane, nil, func() {
				pc, perr := w.StartLiveFeed(FeedCfg{H: 0, C: ci})
				if perr == nil && !pc.StopAndWait() {
					sr.mu.Lock()
					sr.log = append(sr.log, "plain feed did not end")
					sr.mu.Unlock()
				}
			})
			sr.order = append(sr.order, lane)
			sr.log = append(sr.log, fmt.Sprintf("plainStop %s -> %s", st.Lane, status))
		case "resumeFeed":
			for _, name := range sr.order {
				if strings.HasPrefix(name, "F") && sr.s.Parked(name) != "" {
					st := sr.s.Resume(name, []string{"feed.afterBackfill"}) // (a multi-collection start parks once per collection)
					for i := 0; i < 4 && strings.HasPrefix(st, "parked"); i++ {
						st = sr.s.Resume(name, []string{"feed.afterBackfill"})
					}
					sr.log = append(sr.log, "resumeFeed "+name+" -> "+st)
				}
			}
		case "pause":
			time.Sleep(60 * time.Millisecond) // lets a released part of the feed end before the next one is released
		default:
			if sr.step(st) == "hang" {
				bad("script.hang", "lane %s hangs", st.Lane)
				return
			}
		}
	}
	for ci, g := range gated {
		if g {
			sr.s.OpenGate(fmt.Sprintf("feed.callback.%d", ci))
		}
	}
	if hung := sr.finishAll(); hung != nil {
		bad("script.hang", "lanes %v never finished", hung)
		return
	}
	sr.s.Stop()
	if cur != nil && !cur.stopped {
		if c := collector(cur); c != nil {
			c.Stop()
			cur.stopped = true
			pendingStops = append(pendingStops, cur)
		}
	}
	for _, r := range pendingStops {
		if c := collector(r); c != nil {
			select {
			case <-c.done:
			case <-time.After(callTimeout):
				bad("cp.done", "a stopped feed never closed its done channel")
				return
			}
		}
	}
	// final run: resume from the checkpoint as a dump; together the runs must have delivered the
	// final version of every document
	final := &cpRun{prevCp: readCps(), maxCas: map[int]uint64{}}
	fc := &Collector{Cfg: FeedCfg{}, w: w, term: make(chan bool), done: make(chan struct{}), colls: fcolls}
	fc.cond = sync.NewCond(&fc.mu)
	fargs := feedArgs(fc, true)
	fargs.Terminator = nil
	if e := start(fargs, func(ev sgbucket.FeedEvent) bool {
		if ev.Opcode == sgbucket.FeedOpMutation || ev.Opcode == sgbucket.FeedOpDeletion {
			ci := evColl(ev)
			k := dkey(ci, string(ev.Key))
			dmu.Lock()
			if delivered[k] == nil {
				delivered[k] = map[uint64]bool{}
			}
			delivered[k][ev.Cas] = true
			if ev.Cas > final.maxCas[ci] {
				final.maxCas[ci] = ev.Cas
			}
			dmu.Unlock()
		}
		return true
	}); e != nil {
		bad("cp.start", "final StartDCPFeed(resume, dump) failed: %v", e)
		return
	}
	select {
	case <-fc.done:
	case <-time.After(callTimeout):
		bad("cp.done", "the final dump feed never finished")
		return
	}
	if len(runs) == 0 {
		return // no resumable run before the final one: nothing about resuming to judge
	}
	// the persisted checkpoint never exceeds the highest CAS the feed (all its runs) delivered
	for _, ci := range fcolls {
		var maxDelivered uint64
		dmu.Lock()
		for k, m := range delivered {
			if !strings.HasPrefix(k, fmt.Sprintf("%d/", ci)) {
				continue
			}
			for c := range m {
				if c > maxDelivered {
					maxDelivered = c
				}
			}
		}
		dmu.Unlock()
		if cp := readCp(ci); cp > maxDelivered {
			bad("cp.ahead", "the final checkpoint of %s is %#x but the highest CAS any run delivered for that collection is %#x", w.Cfg.Colls[ci], cp, maxDelivered)
		}
	}
	for _, ci := range fcolls {
		for _, k := range []string{"a", "b", "c", "d"} {
			st, _ := Observe(w.Coll(0, ci), k, []string{"_sync"})
			if !st.Present {
				continue
			}
			dmu.Lock()
			ok := delivered[dkey(ci, k)][st.Cas]
			dmu.Unlock()
			if !ok {
				var seen []string
				for c := range delivered[dkey(ci, k)] {
					seen = append(seen, fmt.Sprintf("%#x", c))
				}
				sort.Strings(seen)
				bad("cp.skipped", "the final version of %s/%q (cas %#x) was delivered by none of the %d runs of the checkpointed feed (delivered CAS values for the key: %v)", w.Cfg.Colls[ci], k, st.Cas, len(runs)+1, seen)
			}
		}
	}
	return
}

func TestC15(t *testing.T) {
	scriptTest(t, "C15", "TestC15",
		"parking-scheduler scripts: a feed with CheckpointPrefix + FeedResume is started (optionally held between backfill and registration), stopped by its terminator and restarted several times while writer lanes mutate 4 keys through the regular write API; stops are placed while a writer is held in the commit->post window and while the feed's callback is held at a gate (events queued but not delivered); a last dump run resumes from the checkpoint. Together the runs must have delivered the final version of every document, and after each stop the checkpoint must not exceed the highest CAS that run's callback received nor go backwards; non-trivial = at least one stop/restart with a writer parked or the callback gated at some point; distinct by script shape and scheduler log",
		genCheckpointScript, runCheckpointScript,
		func(sc *Script, sr *scriptRun) bool {
			stops, special := 0, false
			for _, s := range sc.Steps {
				if s.Do == "stopFeed" {
					stops++
				}
				if s.Do == "gateCb" || (s.Do == "start" && len(s.Arm) > 0) {
					special = true
				}
			}
			return stops >= 1 && special
		})
}
