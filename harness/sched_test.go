package h

// Scheduled (parking-scheduler) scripts: C08 ordering, C09 start-up gap, C02/C18 windows, C15.

import (
	"encoding/json"
	"fmt"
	"sort"
	"strings"
	"sync"
	"testing"
	"time"

	sgbucket "github.com/couchbase/sg-bucket"
	"pgregory.net/rapid"
)

// SStep is one step of a concurrent script.
type SStep struct {
	Do   string   `json:"do"` // start | resume | await | finish
	Lane string   `json:"lane"`
	Op   *Op      `json:"op,omitempty"`
	Arm  []string `json:"arm,omitempty"`
}

type Script struct {
	Config Config         `json:"config"`
	Prefix []Op           `json:"prefix,omitempty"` // sequential set-up through the engine
	Steps  []SStep        `json:"steps"`
	Extra  map[string]any `json:"extra,omitempty"`
}

type laneOut struct {
	Op  Op
	Res Result
}

// scriptRun executes the lanes of a script. Every started lane is finished at the end.
type scriptRun struct {
	run     *Run
	s       *Sched
	outs    map[string]*laneOut
	order   []string // lanes in start order
	log     []string
	overlap int // lanes started while another lane was parked
	mu      sync.Mutex
}

func newScriptRun(sc *Script, prop string) (*scriptRun, error) {
	w, err := NewWorld(sc.Config)
	if err != nil {
		return nil, err
	}
	run := NewRun(w, prop)
	for _, op := range sc.Prefix {
		run.Do(op)
	}
	run.SyncFeeds()
	sr := &scriptRun{run: run, outs: map[string]*laneOut{}}
	sr.s = NewSched(w.Name)
	sr.s.Grace = 80 * time.Millisecond
	return sr, nil
}

func (sr *scriptRun) close() {
	sr.s.Stop()
	sr.run.Close()
}

func (sr *scriptRun) step(st SStep) string {
	var status string
	switch st.Do {
	case "start":
		out := &laneOut{Op: *st.Op}
		sr.outs[st.Lane] = out
		sr.order = append(sr.order, st.Lane)
		for _, other := range sr.order[:len(sr.order)-1] {
			if sr.s.Parked(other) != "" {
				sr.overlap++
				break
			}
		}
		status = sr.s.Start(st.Lane, st.Arm, func() { sr.run.W.exec(*st.Op, &out.Res) })
	case "resume":
		status = sr.s.Resume(st.Lane, st.Arm)
	case "await":
		status = sr.s.Await(st.Lane)
	}
	sr.log = append(sr.log, fmt.Sprintf("%s %s -> %s", st.Do, st.Lane, status))
	return status
}

// finishAll resumes every parked lane (in start order) until all lanes are done.
func (sr *scriptRun) finishAll() (hung []string) {
	deadline := time.Now().Add(callTimeout)
	for {
		pending := 0
		for _, name := range sr.order {
			sr.s.mu.Lock()
			l := sr.s.lanes[name]
			done, parked := l.done, l.parked
			sr.s.mu.Unlock()
			if done {
				continue
			}
			pending++
			if parked != "" {
				sr.s.Resume(name, nil)
			}
		}
		if pending == 0 {
			return nil
		}
		if time.Now().After(deadline) {
			for _, name := range sr.order {
				sr.s.mu.Lock()
				if !sr.s.lanes[name].done {
					hung = append(hung, name)
				}
				sr.s.mu.Unlock()
			}
			return hung
		}
		time.Sleep(2 * time.Millisecond)
	}
}

// ---- C08 (b): events reach each feed in CAS order whatever the order of posting ------------------

var laneOpKinds = []string{"Set", "SetRaw", "Add", "WriteCas", "Delete", "Incr", "SetXattrs", "Update", "WriteWithXattrs", "SetWithMeta", "WriteSubDoc"}

func genLaneOp(rt *rapid.T, i int, keys []string, ncoll int) Op {
	k := pick(rt, laneOpKinds, "lane.op")
	op := Op{K: k, Key: pick(rt, keys, "lane.key"), C: rapid.IntRange(0, ncoll-1).Draw(rt, "lane.coll")}
	body := []byte(fmt.Sprintf(`{"lane":%d}`, i))
	switch k {
	case "Set", "SetRaw", "Add":
		op.Body = body
	case "WriteCas":
		op.Body = body
		op.Cas = CasSpec{Kind: pick(rt, []string{"current", "zero"}, "lane.cas")}
	case "Incr":
		op.Amt, op.Def = 1, uint64(i)
	case "SetXattrs":
		op.X = map[string]string{"_sync": fmt.Sprintf(`{"lane":%d}`, i)}
	case "Update":
		op.Cb, op.Body = "set", body
	case "WriteWithXattrs":
		op.Body = body
		op.X = map[string]string{"_sync": fmt.Sprintf(`{"lane":%d}`, i)}
		op.Cas = CasSpec{Kind: pick(rt, []string{"current", "zero"}, "lane.cas")}
	case "SetWithMeta":
		op.Body, op.JSON, op.MetaCas = body, true, "above"
		op.Cas = CasSpec{Kind: "current"}
	case "WriteSubDoc":
		op.Path, op.Body = fmt.Sprintf("p%d", i), []byte(fmt.Sprint(i))
	}
	return op
}

func genOrderScript(rt *rapid.T) *Script {
	sc := &Script{Config: Config{Disk: chance(rt, 30, "disk"), Handles: rapid.IntRange(1, 2).Draw(rt, "handles"), Colls: allCollNames[:rapid.IntRange(1, 2).Draw(rt, "ncoll")]}}
	nfeeds := rapid.IntRange(1, 2).Draw(rt, "nfeeds")
	for i := 0; i < nfeeds; i++ {
		sc.Config.Feeds = append(sc.Config.Feeds, FeedCfg{H: rapid.IntRange(0, sc.Config.Handles-1).Draw(rt, "feed.h"), C: rapid.IntRange(0, len(sc.Config.Colls)-1).Draw(rt, "feed.c"), Multi: len(sc.Config.Colls) > 1 && chance(rt, 30, "feed.multi")})
	}
	keys := []string{"a", "b", "c"}
	for _, k := range keys {
		if chance(rt, 60, "prefix."+k) {
			sc.Prefix = append(sc.Prefix, Op{K: "Set", Key: k, C: 0, Body: []byte(`{"n":0}`)})
		}
	}
	n := rapid.IntRange(2, 4).Draw(rt, "lanes")
	var lanes []string
	for i := 0; i < n; i++ {
		name := fmt.Sprintf("L%d", i)
		lanes = append(lanes, name)
		op := genLaneOp(rt, i, keys, len(sc.Config.Colls))
		if sc.Config.Handles > 1 {
			op.H = rapid.IntRange(0, sc.Config.Handles-1).Draw(rt, "lane.h")
		}
		sc.Steps = append(sc.Steps, SStep{Do: "start", Lane: name, Op: &op, Arm: []string{"cas.beforePost", "meta.beforePost"}})
	}
	// resume in a generated order
	perm := rapid.Permutation(lanes).Draw(rt, "resume.order")
	for _, l := range perm {
		sc.Steps = append(sc.Steps, SStep{Do: "resume", Lane: l})
	}
	return sc
}

// runOrderScript executes the script and checks exactly-once + CAS order on every feed.
func runOrderScript(sc *Script) (devs []Deviation, sr *scriptRun, err error) {
	sr, err = newScriptRun(sc, "C08")
	if err != nil {
		return nil, nil, err
	}
	defer sr.close()
	w := sr.run.W
	for _, f := range w.Feeds {
		f.take()
	}
	for _, st := range sc.Steps {
		if sr.step(st) == "hang" {
			devs = append(devs, Deviation{Clause: "script.hang", Props: []string{"C08", "C20"}, Msg: fmt.Sprintf("lane %s neither finished nor reached a hook point: %v", st.Lane, sr.log)})
			return
		}
	}
	if hung := sr.finishAll(); hung != nil {
		devs = append(devs, Deviation{Clause: "script.hang", Props: []string{"C08", "C20"}, Msg: fmt.Sprintf("lanes %v never finished: %v", hung, sr.log)})
		return
	}
	sr.s.Stop()
	// which mutations succeeded, and with which CAS: read from the final documents and the results
	type mut struct {
		lane string
		c    int
		key  string
	}
	okLanes := map[string]bool{}
	for name, out := range sr.outs {
		if out.Res.Panic != "" {
			devs = append(devs, Deviation{Clause: "script.panic", Props: []string{"C08", "C20"}, Msg: fmt.Sprintf("lane %s panicked: %s", name, out.Res.Panic)})
		}
		if out.Res.Err == "" && !(out.Op.K == "Add" && !out.Res.Added) {
			okLanes[name] = true
		}
	}
	// sentinel, then inspect each feed
	sr.run.Exp = nil
	sr.run.syncOnly()
	for fi, f := range w.Feeds {
		evs := f.take()
		last := map[uint32]uint64{}
		seenCas := map[uint64]int{}
		nEvents := 0
		metaCas := map[uint64]bool{} // caller-supplied CAS values (*WithMeta) are exempt from the ordering clause
		for _, out := range sr.outs {
			if family(out.Op).meta {
				metaCas[out.Res.MetaCasArg] = true
			}
		}
		for _, ev := range evs {
			if strings.HasPrefix(string(ev.Key), sentinelPrefix) {
				continue
			}
			if metaCas[ev.Cas] {
				// counted below, not ordered
			} else if ev.Cas <= last[ev.CollectionID] {
				devs = append(devs, Deviation{Clause: "event.order", Props: []string{"C08"}, Sig: "event.order|scheduled",
					Msg: fmt.Sprintf("feed %d received the event for %q cas %#x after an event with cas %#x of the same collection (script: %v)", fi, ev.Key, ev.Cas, last[ev.CollectionID], sr.log)})
			}
			if ev.Cas > last[ev.CollectionID] && !metaCas[ev.Cas] {
				last[ev.CollectionID] = ev.Cas
			}
			seenCas[ev.Cas]++
			nEvents++
		}
		// exactly once: as many events as successful CAS-changing mutations on the covered
		// collections, all with different CAS values
		want := 0
		for name, out := range sr.outs {
			if f.covers(out.Op.C) && okLanes[name] {
				want++
			}
		}
		if nEvents != want {
			devs = append(devs, Deviation{Clause: "event.count", Props: []string{"C08"}, Sig: "event.count|scheduled",
				Msg: fmt.Sprintf("feed %d received %d events for %d successful mutations (script: %v)", fi, nEvents, want, sr.log)})
		}
		for cas, n := range seenCas {
			if n > 1 {
				devs = append(devs, Deviation{Clause: "event.duplicate", Props: []string{"C08"}, Sig: "event.duplicate|scheduled",
					Msg: fmt.Sprintf("feed %d received %d events with cas %#x (script: %v)", fi, n, cas, sr.log)})
			}
		}
	}
	return
}

// syncOnly: sentinel round trip without comparing against expected events.
func (r *Run) syncOnly() {
	saved := r.Exp
	r.Exp = nil
	w := r.W
	for ci := range w.Cfg.Colls {
		used := false
		for _, f := range w.Feeds {
			used = used || f.covers(ci)
		}
		if !used || w.Model.Colls[ci].Dropped {
			continue
		}
		ds := w.Coll(0, ci)
		if err := ds.SetRaw(sentinelPrefix, 0, nil, []byte("s")); err != nil {
			r.dev("feed.sentinel.write", []string{"C08"}, "sentinel write failed: %v", err)
			continue
		}
		_, cas, _ := ds.GetRaw(sentinelPrefix)
		cas, err := ds.Remove(sentinelPrefix, cas)
		if err != nil {
			r.dev("feed.sentinel.write", []string{"C08"}, "sentinel remove failed: %v", err)
			continue
		}
		for fi, f := range w.Feeds {
			if f.covers(ci) && !f.waitCas(cas, sentinelTimeout) {
				r.dev("feed.sentinel", []string{"C08", "C16"}, "feed %d never delivered the sentinel", fi)
			}
		}
	}
	r.Exp = saved
}

func scriptTest(t *testing.T, prop, test, rule string, gen func(rt *rapid.T) *Script, runf func(sc *Script) ([]Deviation, *scriptRun, error), nontrivial func(sc *Script, sr *scriptRun) bool) {
	st := statsFor(prop, test)
	st.Rule = rule
	judge := func(devs []Deviation) []Deviation {
		var out []Deviation
		for _, d := range devs {
			if !d.Has(prop) {
				continue
			}
			if id, ok := tolerated(prop, d); ok {
				st.mu.Lock()
				st.KnownHits[id]++
				st.mu.Unlock()
				continue
			}
			out = append(out, d)
		}
		return out
	}
	if replayMode() {
		rp := loadReplay(test)
		if rp == nil {
			t.Skip("replay file is for another test")
		}
		var sc Script
		if err := json.Unmarshal(rp.Extra, &sc); err != nil {
			t.Fatal(err)
		}
		devs, _, err := runf(&sc)
		if err != nil {
			t.Fatalf("infrastructure: %v", err)
		}
		st.Case(1, true, func() any { return sc })
		if ds := judge(devs); len(ds) > 0 {
			t.Fatalf("property %s violated by replay:%s", prop, devText(ds))
		}
		return
	}
	var once sync.Once
	rapid.Check(t, func(rt *rapid.T) {
		sc := gen(rt)
		devs, sr, err := runf(sc)
		if err != nil {
			rt.Fatalf("INFRA: %v", err)
		}
		b, _ := json.Marshal(sc)
		var logSig string
		if sr != nil {
			logSig = strings.Join(sr.log, ";")
		}
		st.Case(fnvString(scriptShape(sc)+logSig), nontrivial(sc, sr), func() any { return map[string]any{"script": sc, "log": sr.log} })
		if ds := judge(devs); len(ds) > 0 {
			once.Do(func() {
				saveReplay(&Replay{Property: prop, Test: test, Extra: b, Expect: ds})
				st.Violations++
			})
			rt.Fatalf("property %s violated (replay %s):%s", prop, replayPath(prop, test), devText(ds))
		}
	})
}

func scriptShape(sc *Script) string {
	var parts []string
	for _, s := range sc.Steps {
		p := s.Do + ":" + s.Lane
		if s.Op != nil {
			p += ":" + opLabel(*s.Op) + ":" + s.Op.Key
		}
		parts = append(parts, p)
	}
	sort.Strings(nil)
	return fmt.Sprintf("%v|%d|%s", sc.Config.Disk, len(sc.Config.Feeds), strings.Join(parts, ","))
}

func TestC08Order(t *testing.T) {
	scriptTest(t, "C08", "TestC08Order",
		"parking-scheduler scripts: 2-4 writer lanes (11 entry points, same or different keys, 1-2 handles, 1-2 collections) are started one after the other and held at the commit->post window (cas.beforePost / meta.beforePost), then released in a generated permutation; after a sentinel every feed must have received each successful mutation exactly once and in strictly increasing CAS order per collection; non-trivial = at least one lane was started while another lane was parked in the window and the release order differs from the start order; distinct by script shape and scheduler log",
		genOrderScript, runOrderScript,
		func(sc *Script, sr *scriptRun) bool {
			if sr == nil || sr.overlap == 0 {
				return false
			}
			var starts, resumes []string
			for _, s := range sc.Steps {
				if s.Do == "start" {
					starts = append(starts, s.Lane)
				} else if s.Do == "resume" {
					resumes = append(resumes, s.Lane)
				}
			}
			return strings.Join(starts, ",") != strings.Join(resumes, ",")
		})
}

var _ = sgbucket.FeedOpMutation

// ---- C09 (b): a feed that starts while writers commit loses nothing ------------------------------

func genGapScript(rt *rapid.T) *Script {
	sc := &Script{Config: Config{Disk: chance(rt, 30, "disk"), Handles: rapid.IntRange(1, 2).Draw(rt, "handles"), Colls: allCollNames[:1]}, Extra: map[string]any{}}
	keys := []string{"a", "b", "c"}
	for _, k := range keys {
		if chance(rt, 60, "prefix."+k) {
			sc.Prefix = append(sc.Prefix, Op{K: "Set", Key: k, Body: []byte(`{"n":0}`)})
		}
	}
	if chance(rt, 40, "prefix.del") {
		sc.Prefix = append(sc.Prefix, Op{K: "Delete", Key: pick(rt, keys, "prefix.delkey")})
	}
	sc.Extra["backfill"] = pick(rt, []string{"zero", "zero", "none"}, "gap.backfill")
	sc.Extra["feedHandle"] = rapid.IntRange(0, sc.Config.Handles-1).Draw(rt, "gap.h")
	// the feed start parks after its backfill; writers run while it is parked; then it is resumed
	sc.Steps = append(sc.Steps, SStep{Do: "start", Lane: "F", Arm: []string{"feed.afterBackfill"}})
	n := rapid.IntRange(1, 3).Draw(rt, "writers")
	for i := 0; i < n; i++ {
		op := genLaneOp(rt, i, keys, 1)
		if sc.Config.Handles > 1 {
			op.H = rapid.IntRange(0, sc.Config.Handles-1).Draw(rt, "lane.h")
		}
		var arm []string
		if chance(rt, 30, "gap.parkwriter") {
			arm = []string{"cas.beforePost"}
		}
		sc.Steps = append(sc.Steps, SStep{Do: "start", Lane: fmt.Sprintf("L%d", i), Op: &op, Arm: arm})
	}
	sc.Steps = append(sc.Steps, SStep{Do: "resume", Lane: "F"})
	return sc
}

func runGapScript(sc *Script) (devs []Deviation, sr *scriptRun, err error) {
	sr, err = newScriptRun(sc, "C09")
	if err != nil {
		return nil, nil, err
	}
	defer sr.close()
	w := sr.run.W
	c09 := []string{"C09"}
	var col *Collector
	backfill := uint64(sgbucket.FeedNoBackfill)
	if b, _ := sc.Extra["backfill"].(string); b == "zero" {
		backfill = 0
	}
	fh := 0
	switch v := sc.Extra["feedHandle"].(type) {
	case int:
		fh = v
	case float64:
		fh = int(v)
	}
	for _, st := range sc.Steps {
		var status string
		if st.Lane == "F" && st.Do == "start" {
			sr.order = append(sr.order, "F")
			sr.outs["F"] = &laneOut{}
			status = sr.s.Start("F", st.Arm, func() {
				c, e := w.startFeed(FeedCfg{H: fh, C: 0}, backfill, false, "")
				if e != nil {
					sr.outs["F"].Res.Err = e.Error()
				}
				sr.mu.Lock()
				col = c
				sr.mu.Unlock()
			})
			sr.log = append(sr.log, "start F -> "+status)
		} else {
			status = sr.step(st)
		}
		if status == "hang" {
			devs = append(devs, Deviation{Clause: "script.hang", Props: []string{"C09", "C20"}, Msg: fmt.Sprintf("lane %s hangs: %v", st.Lane, sr.log)})
			return
		}
	}
	if hung := sr.finishAll(); hung != nil {
		devs = append(devs, Deviation{Clause: "script.hang", Props: []string{"C09", "C20"}, Msg: fmt.Sprintf("lanes %v never finished: %v", hung, sr.log)})
		return
	}
	sr.s.Stop()
	sr.mu.Lock()
	feed := col
	sr.mu.Unlock()
	if feed == nil {
		devs = append(devs, Deviation{Clause: "gap.start", Props: c09, Msg: "StartDCPFeed failed: " + sr.outs["F"].Res.Err})
		return
	}
	w.Feeds = append(w.Feeds, feed)
	sr.run.syncOnly()
	evs := feed.take()
	lastCas := map[string]uint64{}
	for _, ev := range evs {
		if ev.Opcode == sgbucket.FeedOpBeginBackfill || ev.Opcode == sgbucket.FeedOpEndBackfill {
			continue
		}
		lastCas[string(ev.Key)] = ev.Cas
	}
	// every key's final version was delivered by backfill or live
	for _, k := range []string{"a", "b", "c"} {
		st, _ := Observe(w.Coll(0, 0), k, []string{"_sync"})
		if !st.Present {
			continue
		}
		mutatedInScript := false
		for _, out := range sr.outs {
			if out.Op.Key == k && out.Res.Err == "" {
				mutatedInScript = true
			}
		}
		if backfill != 0 && !mutatedInScript {
			continue // no backfill requested and nothing changed while the feed was starting
		}
		if backfill != 0 {
			// without backfill only mutations that *complete after StartDCPFeed returned* are owed;
			// a mutation that committed while the feed was starting may legitimately be missed
			continue
		}
		if lastCas[k] != st.Cas {
			devs = append(devs, Deviation{Clause: "gap.lost", Props: c09, Sig: "gap.lost",
				Msg: fmt.Sprintf("key %q: final version has cas %#x but the last event the feed (backfill from 0 + live) received for it has cas %#x: a mutation that committed while the feed was starting was delivered neither by backfill nor live (script: %v)", k, st.Cas, lastCas[k], sr.log)})
		}
	}
	return
}

func TestC09Gap(t *testing.T) {
	scriptTest(t, "C09", "TestC09Gap",
		"parking-scheduler scripts: StartDCPFeed(backfill from 0, live) is held between the end of its backfill and its registration for live events (feed.afterBackfill) while 1-3 writer lanes commit (some of them held at cas.beforePost across the start), then released; after a sentinel the last event the feed received for each key must be the key's final version; non-trivial = at least one write committed while the feed start was parked; distinct by script shape and scheduler log",
		genGapScript, runGapScript,
		func(sc *Script, sr *scriptRun) bool {
			if sr == nil {
				return false
			}
			for _, l := range sr.log {
				if strings.HasPrefix(l, "start F -> parked") {
					return sr.overlap > 0
				}
			}
			return false
		})
}
