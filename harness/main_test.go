package h

import (
	"os"
	"testing"
)

func TestMain(m *testing.M) {
	code := m.Run()
	writeStats()
	os.Exit(code)
}
