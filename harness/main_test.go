package h

import (
	"os"
	"testing"
)

func TestMain(m *testing.M) {
	code := m.Run()
	writeStats()
	os.Exit(code)
}

// TestChildMain is the entry point of re-executed child processes (see child.go).
func TestChildMain(t *testing.T) {
	plan := os.Getenv("VERIF_CHILD_PLAN")
	if plan == "" {
		t.Skip("not a child process")
	}
	ChildMain(plan)
}
