package h

import (
	"bytes"
	"fmt"
	"sort"
	"strings"
	"sync"
	"sync/atomic"
	"time"

	sgbucket "github.com/couchbase/sg-bucket"
	"pgregory.net/rapid"
)

const sentinelPrefix = "__sentinel"

// how long a sync waits for the sentinel before declaring the feed dead (shorter while minimising)
var sentinelTimeout = 30 * time.Second

// Collector receives the events of one feed.
type Collector struct {
	Cfg        FeedCfg
	w          *World
	mu         sync.Mutex
	cond       *sync.Cond
	evs        []sgbucket.FeedEvent
	term       chan bool
	done       chan struct{}
	doneClosed atomic.Bool
	afterDone  atomic.Int32 // callback invocations after the done channel was closed
	stopped    bool
	prev       *Collector
	final      bool
	colls      []int                       // collection indexes this feed covers
	OnEvent    func(ev sgbucket.FeedEvent) // optional extra callback hook (parking)
	backfilled bool                        // started with a backfill (from 0 or a named CAS), then live
}

var feedSerial int64

func (w *World) StartLiveFeed(fc FeedCfg) (*Collector, error) {
	return w.startFeed(fc, sgbucket.FeedNoBackfill, false, "")
}

func (w *World) startFeed(fc FeedCfg, backfill uint64, dump bool, checkpoint string) (*Collector, error) {
	c := &Collector{Cfg: fc, w: w, term: make(chan bool), done: make(chan struct{})}
	c.backfilled = !dump && backfill != sgbucket.FeedNoBackfill && backfill != sgbucket.FeedResume
	c.cond = sync.NewCond(&c.mu)
	id := fmt.Sprintf("feed%d", atomic.AddInt64(&feedSerial, 1))
	if checkpoint == "cp" {
		id = "cpfeed" // (C15's scripts resume one feed by its ID)
	}
	if checkpoint == "cp16s" {
		id = "shared" // (C16: several live feeds with the same CheckpointPrefix:ID at once)
	}
	if checkpoint == "ck" {
		id = "c11" // (CpDumpStep: one feed ID for every collection)
	}
	args := sgbucket.FeedArguments{ID: id, Backfill: backfill, Dump: dump, KeysOnly: fc.KeysOnly, Terminator: c.term, DoneChan: c.done, CheckpointPrefix: checkpoint}
	cb := func(ev sgbucket.FeedEvent) bool {
		if c.doneClosed.Load() {
			c.afterDone.Add(1)
		}
		if c.OnEvent != nil {
			c.OnEvent(ev)
		}
		c.mu.Lock()
		c.evs = append(c.evs, ev)
		c.cond.Broadcast()
		c.mu.Unlock()
		return true
	}
	go func() {
		<-c.done
		c.doneClosed.Store(true)
		c.mu.Lock()
		c.cond.Broadcast()
		c.mu.Unlock()
	}()
	var err error
	if fc.Multi {
		scopes := map[string][]string{}
		for i, cn := range w.Cfg.Colls {
			if w.Model != nil && w.Model.Colls[i].Dropped {
				continue
			}
			if fc.NoDefault && i == 0 && len(w.Cfg.Colls) > 1 {
				continue
			}
			n := dsName(cn)
			scopes[n.Scope] = append(scopes[n.Scope], n.Collection)
			c.colls = append(c.colls, i)
		}
		args.Scopes = scopes
		err = w.Handles[fc.H].StartDCPFeed(ctx, args, cb, nil)
	} else {
		c.colls = []int{fc.C}
		err = w.RColl(fc.H, fc.C).StartDCPFeed(ctx, args, cb, nil)
	}
	if err != nil {
		return nil, err
	}
	return c, nil
}

func (c *Collector) Stop() {
	c.mu.Lock()
	defer c.mu.Unlock()
	if !c.stopped {
		c.stopped = true
		close(c.term)
	}
}

// StopAndWait closes the terminator and waits for the done channel.
func (c *Collector) StopAndWait() bool {
	c.Stop()
	select {
	case <-c.done:
		return true
	case <-time.After(30 * time.Second):
		return false
	}
}

func (c *Collector) covers(ci int) bool {
	for _, x := range c.colls {
		if x == ci {
			return true
		}
	}
	return false
}

// waitCas waits until an event with the given CAS has arrived; false on timeout / feed end.
func (c *Collector) waitCas(cas uint64, timeout time.Duration) bool {
	deadline := time.Now().Add(timeout)
	c.mu.Lock()
	defer c.mu.Unlock()
	for {
		for i := len(c.evs) - 1; i >= 0; i-- {
			if c.evs[i].Cas == cas {
				return true
			}
		}
		if c.doneClosed.Load() || time.Now().After(deadline) {
			return false
		}
		waitCond(c.cond, 50*time.Millisecond)
	}
}

func waitCond(cond *sync.Cond, d time.Duration) {
	t := time.AfterFunc(d, func() { cond.Broadcast() })
	cond.Wait()
	t.Stop()
}

// take removes and returns the collected events.
// takeBackfill waits for the end-of-backfill marker and removes everything up to it from the
// collector (what follows is the live part of the feed).
func (c *Collector) takeBackfill(timeout time.Duration) ([]sgbucket.FeedEvent, bool) {
	deadline := time.Now().Add(timeout)
	for {
		c.mu.Lock()
		for i, ev := range c.evs {
			if ev.Opcode == sgbucket.FeedOpEndBackfill {
				out := append([]sgbucket.FeedEvent(nil), c.evs[:i+1]...)
				c.evs = append([]sgbucket.FeedEvent(nil), c.evs[i+1:]...)
				c.mu.Unlock()
				return out, true
			}
		}
		c.mu.Unlock()
		if time.Now().After(deadline) {
			return nil, false
		}
		time.Sleep(2 * time.Millisecond)
	}
}

func (c *Collector) take() []sgbucket.FeedEvent {
	c.mu.Lock()
	defer c.mu.Unlock()
	out := c.evs
	c.evs = nil
	return out
}

// SyncFeeds writes and removes a sentinel document per covered collection, waits for the removal's
// event (FIFO queue: everything pushed earlier has then been delivered), and compares what each
// feed received with the expected events recorded since the last sync. The sentinel ends up as a
// tombstone without xattrs, invisible to reads of model keys, views and queries.
func (r *Run) SyncFeeds() {
	w := r.W
	if len(w.Feeds) == 0 {
		r.Exp = nil
		return
	}
	key := sentinelPrefix
	sentCas := map[int]uint64{}
	for ci := range w.Cfg.Colls {
		if w.Model.Colls[ci].Dropped {
			continue
		}
		used := false
		for _, f := range w.Feeds {
			if f.covers(ci) {
				used = true
			}
		}
		if !used {
			continue
		}
		ds := w.Coll(0, ci)
		err := ds.SetRaw(key, 0, nil, []byte("s"))
		var cas uint64
		if err == nil {
			_, cas, err = ds.GetRaw(key)
		}
		if err == nil {
			cas, err = ds.Remove(key, cas)
		}
		if err != nil {
			r.dev("feed.sentinel.write", []string{"C08"}, "sentinel write failed: %v", err)
			r.Exp = nil
			return
		}
		sentCas[ci] = cas
		if r.sentTomb == nil {
			r.sentTomb = map[int]bool{}
		}
		r.sentTomb[ci] = true
	}
	for fi, f := range w.Feeds {
		for _, ci := range f.colls {
			if w.Model.Colls[ci].Dropped {
				continue
			}
			if !f.waitCas(sentCas[ci], sentinelTimeout) {
				r.dev("feed.sentinel", []string{"C08", "C16"}, "feed %d (%+v) never delivered the sentinel written to %s: feed is dead or starved", fi, f.Cfg, w.Cfg.Colls[ci])
			}
		}
		r.compareFeed(fi, f, f.take())
	}
	r.Exp = nil
}

// CpDumpStep runs a resumable checkpointed dump feed (prefix "ck", one feed ID for every collection,
// as a multi-collection consumer uses) on collection op.C. It must deliver the current version of
// every document of that collection newer than what the collection's earlier runs delivered -
// whatever happened in other collections and whatever feeds of the same ID ran there - and the
// checkpoint document it leaves is a document of its own collection only (it enters the model like
// any other document, so every other observer accounts for it).
func (r *Run) CpDumpStep(op Op) {
	w := r.W
	m := w.Model
	tr := StepTrace{Op: op, Outcome: "cp-dump"}
	defer func() { r.Trace = append(r.Trace, tr) }()
	nDev := len(r.Devs)
	r.SyncFeeds()
	const cpKey = "ck:c11"
	backfill := uint64(sgbucket.FeedResume)
	explicit, _ := op.Arg["explicit"].(bool)
	if explicit {
		backfill = 0 // a start CAS given by the caller: the stored checkpoint has no say
	}
	col, err := w.startFeed(FeedCfg{H: op.H, C: op.C}, backfill, true, "ck")
	if err != nil {
		r.dev("cpdump.start", []string{"C15"}, "StartDCPFeed(resume, dump, checkpoint) on %s failed: %v", w.Cfg.Colls[op.C], err)
		tr.Outcome = "DEVIATION"
		return
	}
	select {
	case <-col.done:
	case <-time.After(30 * time.Second):
		r.dev("cpdump.done", []string{"C15", "C16"}, "a checkpointed dump feed did not finish within 30s")
		col.Stop()
		tr.Outcome = "DEVIATION"
		return
	}
	if r.cpSeen == nil {
		r.cpSeen = map[int]uint64{}
	}
	from := r.cpSeen[op.C]
	if explicit {
		from = 0
	}
	got := map[string]uint64{}
	for _, ev := range col.take() {
		if ev.Opcode == sgbucket.FeedOpMutation || ev.Opcode == sgbucket.FeedOpDeletion {
			got[string(ev.Key)] = ev.Cas
			if ev.Cas > r.cpSeen[op.C] {
				r.cpSeen[op.C] = ev.Cas
			}
		}
	}
	for _, k := range m.Keys(op.C) {
		st := m.Get(op.C, k)
		if k == cpKey || !st.Present || st.Cas <= from {
			continue
		}
		if got[k] != st.Cas {
			tags := []string{"C11", "C15"}
			if explicit {
				tags = []string{"C09", "C11", "C15"} // a backfill from a CAS the caller named
			}
			r.dev("cpdump.skipped", tags, "the resumed checkpointed feed of %s (its earlier runs delivered up to %#x) did not deliver the current version of %q (cas %#x; delivered for the key: %#x)", w.Cfg.Colls[op.C], from, k, st.Cas, got[k])
		}
	}
	// the checkpoint document is a document of this collection: account for it
	ds := w.Coll(op.H, op.C)
	post, _ := Observe(ds, cpKey, nil)
	if prev := m.Get(op.C, cpKey); !post.Equal(prev) {
		m.Commit(op.C, cpKey, post, "CpDump")
		if post.Present && post.Cas != prev.Cas {
			yes := true
			r.Exp = append(r.Exp, ExpEvent{C: op.C, Key: cpKey, St: post, Step: r.step, OpK: "CpDump", IsJSON: &yes})
		}
	}
	r.frame(op.C, cpKey, "a checkpointed dump feed on "+w.Cfg.Colls[op.C])
	if len(r.Devs) > nDev {
		tr.Outcome = "DEVIATION"
	}
}

func genCpDump(rt *rapid.T, r *Run) (Op, bool) {
	op := Op{K: "CpDump", C: pickColl(rt, r.W, "cpd.coll"), Arg: map[string]any{"explicit": chance(rt, 35, "cpd.explicit")}}
	if len(r.W.Handles) > 1 {
		op.H = rapid.IntRange(0, len(r.W.Handles)-1).Draw(rt, "cpd.h")
	}
	return op, true
}

// ---- feeds started and stopped in the middle of a history ------------------------------------

func init() {
	pseudoHandlers["CpDump"] = func(r *Run, op Op) { r.CpDumpStep(op) }
	pseudoHandlers["StartFeed"] = func(r *Run, op Op) { r.StartFeedStep(op) }
	pseudoHandlers["StopFeed"] = func(r *Run, op Op) { r.StopFeedStep(op) }
}

// StartFeedStep starts one more live feed (no backfill) on collection op.C through handle op.H.
func (r *Run) StartFeedStep(op Op) {
	w := r.W
	tr := StepTrace{Op: op, Outcome: "feed-started"}
	defer func() { r.Trace = append(r.Trace, tr) }()
	r.SyncFeeds() // everything so far is settled: the new feed owes nothing for it
	keysOnly, _ := op.Arg["keysOnly"].(bool)
	withBackfill, _ := op.Arg["backfill"].(bool)
	backfill := uint64(sgbucket.FeedNoBackfill)
	if withBackfill {
		// a live feed that first replays what is there (C09), from 0 or from a CAS the op names,
		// then goes on live (C08)
		backfill = r.resolveFrom(op)
	}
	c, err := w.startFeed(FeedCfg{H: op.H, C: op.C, KeysOnly: keysOnly}, backfill, false, "")
	if err != nil {
		r.dev("feed.start", []string{"C08"}, "StartDCPFeed on %s through handle %d failed: %v", w.Cfg.Colls[op.C], op.H, err)
		tr.Outcome = "DEVIATION"
		return
	}
	if withBackfill {
		evs, ok := c.takeBackfill(30 * time.Second)
		if !ok {
			r.dev("backfill.done", []string{"C09"}, "a live feed started with a backfill never delivered its end-of-backfill marker")
			tr.Outcome = "DEVIATION"
		} else {
			nDev := len(r.Devs)
			r.checkBackfillEvents(evs, op.C, backfill, keysOnly)
			if len(r.Devs) > nDev {
				tr.Outcome = "DEVIATION"
			}
		}
	}
	w.Feeds = append(w.Feeds, c)
}

// StopFeedStep ends feed number arg.i (of those running) by its terminator: it must close its done
// channel, and the feeds that keep running must keep receiving exactly their events.
func (r *Run) StopFeedStep(op Op) {
	w := r.W
	tr := StepTrace{Op: op, Outcome: "feed-stopped"}
	defer func() { r.Trace = append(r.Trace, tr) }()
	if len(w.Feeds) == 0 {
		tr.Outcome = "no-feed"
		return
	}
	r.SyncFeeds()
	fi, _ := op.Arg["i"].(float64)
	if x, ok := op.Arg["i"].(int); ok {
		fi = float64(x)
	}
	i := int(fi) % len(w.Feeds)
	f := w.Feeds[i]
	if !f.StopAndWait() {
		r.dev("feed.notended", []string{"C16"}, "feed %d (%+v) did not close its done channel after its terminator was closed", i, f.Cfg)
		tr.Outcome = "DEVIATION"
	}
	w.Feeds = append(append([]*Collector{}, w.Feeds[:i]...), w.Feeds[i+1:]...)
	r.stoppedFeeds = append(r.stoppedFeeds, f)
}

// checkStoppedFeeds: a feed that was ended earlier got no callback after its done channel closed.
func (r *Run) checkStoppedFeeds() {
	for _, f := range r.stoppedFeeds {
		if n := f.afterDone.Load(); n > 0 {
			r.dev("feed.afterdone", []string{"C16"}, "a feed (%+v) ended by its terminator had its callback invoked %d times after its done channel closed", f.Cfg, n)
		}
	}
}

type evDecoded struct {
	ev     sgbucket.FeedEvent
	body   []byte
	xattrs map[string]string
	decErr error
}

func decodeEvent(ev sgbucket.FeedEvent, keysOnly bool) evDecoded {
	d := evDecoded{ev: ev}
	if keysOnly {
		return d
	}
	if ev.DataType&sgbucket.FeedDataTypeXattr != 0 {
		body, xs, err := sgbucket.DecodeValueWithAllXattrs(ev.Value)
		d.decErr = err
		if len(body) > 0 || ev.Opcode != sgbucket.FeedOpDeletion {
			d.body = body
		}
		if len(xs) > 0 {
			d.xattrs = map[string]string{}
			for k, v := range xs {
				d.xattrs[k] = string(v)
			}
		}
	} else {
		d.body = ev.Value
	}
	return d
}

// eventVsState compares one feed event with the document state it must describe.
func eventVsState(ev sgbucket.FeedEvent, st St, collID uint32, keysOnly bool, isJSON *bool) []string {
	var out []string
	bad := func(f string, a ...any) { out = append(out, fmt.Sprintf(f, a...)) }
	wantOp := sgbucket.FeedOpMutation
	if st.Body == nil {
		wantOp = sgbucket.FeedOpDeletion
	}
	if ev.Opcode != wantOp {
		bad("opcode %s, expected %s (document has body: %v)", ev.Opcode, wantOp, st.Body != nil)
	}
	if ev.Cas != st.Cas {
		bad("cas %#x, expected %#x", ev.Cas, st.Cas)
	}
	if ev.Expiry != st.Exp {
		bad("expiry %d, expected %d", ev.Expiry, st.Exp)
	}
	if ev.RevNo != st.Rev {
		bad("RevNo %d, expected %d", ev.RevNo, st.Rev)
	}
	if ev.CollectionID != collID {
		bad("CollectionID %d, expected %d", ev.CollectionID, collID)
	}
	hasX := ev.DataType&sgbucket.FeedDataTypeXattr != 0
	if !hasX && len(st.X) > 0 && !keysOnly {
		// (the bit may be set with an empty xattr section: the value is then still framed correctly)
		bad("datatype XATTR bit not set, document has %d xattrs", len(st.X))
	}
	if isJSON != nil && st.Body != nil {
		if got := ev.DataType&sgbucket.FeedDataTypeJSON != 0; got != *isJSON {
			bad("datatype JSON bit %v, expected %v", got, *isJSON)
		}
	}
	if keysOnly {
		if ev.Value != nil {
			bad("KeysOnly feed received a value")
		}
		return out
	}
	d := decodeEvent(ev, false)
	if d.decErr != nil {
		bad("value does not decode: %v", d.decErr)
		return out
	}
	if st.Body == nil {
		if len(d.body) != 0 {
			bad("deletion carries body %q", d.body)
		}
	} else if !bytes.Equal(d.body, st.Body) {
		bad("body %q, expected %q", d.body, st.Body)
	}
	if len(d.xattrs) != len(st.X) {
		bad("carries %d xattrs %v, document has %d %v", len(d.xattrs), d.xattrs, len(st.X), st.X)
	} else {
		for k, v := range st.X {
			if d.xattrs[k] != v {
				bad("xattr %s=%s, document has %s", k, d.xattrs[k], v)
			}
		}
	}
	return out
}

func (r *Run) compareFeed(fi int, f *Collector, evs []sgbucket.FeedEvent) {
	w := r.W
	c08 := []string{"C08"}
	// expected events for the collections this feed covers
	var exp []ExpEvent
	for _, e := range r.Exp {
		if f.covers(e.C) {
			exp = append(exp, e)
		}
	}
	var got []sgbucket.FeedEvent
	for _, ev := range evs {
		if strings.HasPrefix(string(ev.Key), sentinelPrefix) {
			continue
		}
		got = append(got, ev)
	}
	collID := func(ci int) uint32 { return w.Coll(0, ci).GetCollectionID() }
	type kc struct {
		coll uint32
		key  string
		cas  uint64
	}
	idx := map[kc][]int{}
	for i, ev := range got {
		k := kc{ev.CollectionID, string(ev.Key), ev.Cas}
		idx[k] = append(idx[k], i)
	}
	used := make([]bool, len(got))
	for _, e := range exp {
		k := kc{collID(e.C), e.Key, e.St.Cas}
		is := idx[k]
		if len(is) == 0 && e.Optional {
			continue
		}
		if len(is) == 0 {
			props := c08
			if f.backfilled {
				props = []string{"C08", "C09"} // a feed that joined live after a backfill owes every later mutation
			}
			r.Devs = append(r.Devs, Deviation{Clause: "event.missing", Props: props, Step: e.Step,
				Msg: fmt.Sprintf("feed %d (%+v): no event for the %s of %s/%q at step %d (cas %#x)", fi, f.Cfg, e.OpK, w.Cfg.Colls[e.C], e.Key, e.Step, e.St.Cas),
				Sig: "event.missing|" + e.OpK})
			if r.DropHappened {
				// after a collection drop, a feed of a *surviving* collection that loses events is an isolation failure too
				r.Devs[len(r.Devs)-1].Props = []string{"C08", "C11", "C16"}
			}
			continue
		}
		if len(is) > 1 {
			r.Devs = append(r.Devs, Deviation{Clause: "event.duplicate", Props: c08, Step: e.Step,
				Msg: fmt.Sprintf("feed %d: %d events for the %s of %q at step %d", fi, len(is), e.OpK, e.Key, e.Step), Sig: "event.duplicate|" + e.OpK})
		}
		for _, i := range is {
			used[i] = true
		}
		if diffs := eventVsState(got[is[0]], e.St, collID(e.C), f.Cfg.KeysOnly, e.IsJSON); len(diffs) > 0 {
			props := []string{"C08"}
			for _, d := range diffs {
				if strings.HasPrefix(d, "RevNo") {
					props = []string{"C08", "C17"}
				}
				if strings.HasPrefix(d, "opcode") {
					props = append(props, "C05")
				}
			}
			for cj := range w.Model.Colls {
				if cj != e.C && !w.Model.Colls[cj].Dropped {
					if o := w.Model.Get(cj, e.Key); o.Present && len(eventVsState(got[is[0]], St{Present: true, Body: o.Body, X: o.X, Cas: e.St.Cas, Exp: e.St.Exp, Rev: e.St.Rev}, collID(e.C), f.Cfg.KeysOnly, nil)) == 0 {
						props = append(props, "C11") // body / xattrs are those of the same key in another collection
					}
				}
			}
			r.Devs = append(r.Devs, Deviation{Clause: "event.faithful", Props: props, Step: e.Step,
				Msg: fmt.Sprintf("feed %d (%+v): event for the %s of %s/%q at step %d differs from the document it describes: %s", fi, f.Cfg, e.OpK, w.Cfg.Colls[e.C], e.Key, e.Step, strings.Join(diffs, "; ")),
				Sig: "event.faithful|" + e.OpK + "|" + firstWord(diffs[0])})
		}
		// learn the datatype for the backfill differential
		if ki := w.Model.Info(e.C, e.Key); ki.St.Cas == e.St.Cas && !f.Cfg.KeysOnly {
			b := got[is[0]].DataType&sgbucket.FeedDataTypeJSON != 0
			ki.IsJSON = &b
		}
	}
	for i, ev := range got {
		if !used[i] {
			props := c08
			for _, e := range r.Exp {
				if !f.covers(e.C) && e.Key == string(ev.Key) && e.St.Cas == ev.Cas {
					props = []string{"C08", "C11"} // a mutation of a collection this feed does not cover
				}
			}
			for _, ci := range f.colls {
				if collID(ci) == ev.CollectionID || len(f.colls) == 1 {
					if st := w.Model.Get(ci, string(ev.Key)); st.Present && ev.RevNo != st.Rev && !f.Cfg.KeysOnly {
						// an event announcing a revision the document does not have
						props = append(append([]string{}, props...), "C17")
					}
					break
				}
			}
			r.Devs = append(r.Devs, Deviation{Clause: "event.spurious", Props: props, Step: r.step,
				Msg: fmt.Sprintf("feed %d (%+v): event %s key %q cas %#x does not correspond to any successful mutation", fi, f.Cfg, ev.Opcode, ev.Key, ev.Cas),
				Sig: "event.spurious"})
		}
	}
	// order: CAS strictly increasing per collection (caller-supplied CAS of *WithMeta exempt)
	metaCas := map[uint64]bool{}
	for _, e := range exp {
		if e.Meta {
			metaCas[e.St.Cas] = true
		}
	}
	last := map[uint32]uint64{}
	for _, ev := range got {
		if metaCas[ev.Cas] {
			continue
		}
		if ev.Cas <= last[ev.CollectionID] && last[ev.CollectionID] != 0 {
			r.Devs = append(r.Devs, Deviation{Clause: "event.order", Props: c08, Step: r.step,
				Msg: fmt.Sprintf("feed %d: event for %q cas %#x delivered after cas %#x", fi, ev.Key, ev.Cas, last[ev.CollectionID]), Sig: "event.order"})
		}
		if ev.Cas > last[ev.CollectionID] {
			last[ev.CollectionID] = ev.Cas
		}
	}
}

func firstWord(s string) string {
	if i := strings.IndexByte(s, ' '); i > 0 {
		return s[:i]
	}
	return s
}

// Backfill runs a Dump feed from CAS `from` on collection ci through handle h and checks that it
// is a faithful snapshot of the model.
func (r *Run) Backfill(h, ci int, from uint64, keysOnly bool) {
	w := r.W
	c09 := []string{"C09"}
	col, err := w.startFeed(FeedCfg{H: h, C: ci, KeysOnly: keysOnly}, from, true, "")
	tr := StepTrace{Op: Op{K: "Backfill", H: h, C: ci, Arg: map[string]any{"from": from, "keysOnly": keysOnly}}, Outcome: "snapshot"}
	if r.curOp.K == "Backfill" {
		tr.Op = r.curOp
	}
	defer func() { r.Trace = append(r.Trace, tr) }()
	if err != nil {
		r.dev("backfill.start", c09, "StartDCPFeed(dump from %#x) failed: %v", from, err)
		tr.Outcome = "DEVIATION"
		return
	}
	select {
	case <-col.done:
	case <-time.After(30 * time.Second):
		r.dev("backfill.done", []string{"C09", "C16"}, "dump feed did not finish within 30s")
		tr.Outcome = "DEVIATION"
		col.Stop()
		return
	}
	evs := col.take()
	nDev := len(r.Devs)
	r.checkBackfillEvents(evs, ci, from, keysOnly)
	if col.afterDone.Load() > 0 {
		r.dev("feed.afterdone", []string{"C16"}, "dump feed callback invoked %d times after its done channel closed", col.afterDone.Load())
	}
	if len(r.Devs) > nDev {
		tr.Outcome = "DEVIATION"
	}
}

// checkBackfillEvents: the events between (and including) the backfill markers of a feed started
// from CAS `from` on collection ci are a faithful snapshot of the model's documents.
func (r *Run) checkBackfillEvents(evs []sgbucket.FeedEvent, ci int, from uint64, keysOnly bool) {
	w := r.W
	m := w.Model
	c09 := []string{"C09"}
	if len(evs) < 2 || evs[0].Opcode != sgbucket.FeedOpBeginBackfill || evs[len(evs)-1].Opcode != sgbucket.FeedOpEndBackfill {
		r.dev("backfill.markers", c09, "dump feed events are not bracketed by begin/end-backfill markers (%d events)", len(evs))
	}
	var docs []sgbucket.FeedEvent
	for _, ev := range evs {
		if ev.Opcode == sgbucket.FeedOpBeginBackfill || ev.Opcode == sgbucket.FeedOpEndBackfill {
			continue
		}
		if strings.HasPrefix(string(ev.Key), sentinelPrefix) || strings.HasPrefix(string(ev.Key), "cp:") {
			continue
		}
		docs = append(docs, ev)
	}
	collID := w.Coll(0, ci).GetCollectionID()
	seen := map[string]int{}
	var lastCas uint64
	for _, ev := range docs {
		k := string(ev.Key)
		seen[k]++
		if ev.Cas < lastCas {
			r.dev("backfill.order", c09, "backfill delivered %q cas %#x after cas %#x", k, ev.Cas, lastCas)
		}
		lastCas = ev.Cas
		st := m.Get(ci, k)
		if !st.Present {
			r.dev("backfill.ghost", c09, "backfill delivered %q (cas %#x) which does not exist", k, ev.Cas)
			continue
		}
		if st.Cas < from {
			r.dev("backfill.range", c09, "backfill from %#x delivered %q whose cas is %#x", from, k, st.Cas)
		}
		ki := m.Info(ci, k)
		if diffs := eventVsState(ev, st, collID, keysOnly, ki.IsJSON); len(diffs) > 0 {
			props := []string{"C09"}
			for _, d := range diffs {
				if strings.HasPrefix(d, "RevNo") {
					props = append(props, "C17")
				}
				if strings.HasPrefix(d, "opcode") {
					props = append(props, "C05")
				}
			}
			r.Devs = append(r.Devs, Deviation{Clause: "backfill.faithful", Props: props, Step: r.step,
				Msg: fmt.Sprintf("backfill event for %s/%q (last writer %s) differs from the document: %s", w.Cfg.Colls[ci], k, ki.LastWriter, strings.Join(diffs, "; ")),
				Sig: "backfill.faithful|" + ki.LastWriter + "|" + firstWord(diffs[0])})
		}
	}
	keys := m.Keys(ci)
	sort.Strings(keys)
	for _, k := range keys {
		st := m.Get(ci, k)
		want := 0
		if st.Present && st.Cas >= from {
			want = 1
		}
		if seen[k] != want {
			r.dev("backfill.complete", c09, "backfill from %#x delivered %d events for %s/%q (state %s), expected %d", from, seen[k], w.Cfg.Colls[ci], k, st, want)
		}
	}
}
