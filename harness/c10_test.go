package h

// C10 — durability and crash atomicity of on-disk buckets (fault enumeration over hook points).

import (
	"encoding/json"
	"fmt"
	"github.com/couchbaselabs/rosmar"
	"os"
	"path/filepath"
	"sort"
	"strings"
	"sync"
	"testing"
	"time"

	sgbucket "github.com/couchbase/sg-bucket"
	"pgregory.net/rapid"
)

var crashHooks = []string{"tx.begin", "cas.afterDocWrite", "tx.beforeCommit", "tx.afterCommit", "cas.beforePost", "meta.beforePost", "subdoc.betweenReadWrite"}

type crashCase struct {
	Config Config     `json:"config"`
	Steps  []Op       `json:"steps"`
	Crash  CrashPoint `json:"crash"`
	After  []Op       `json:"after"` // follow-up steps on the reopened bucket
	// FailedCreate: before the bucket is reopened, OpenBucket(CreateNew) is tried on it: it must be
	// refused (the bucket exists) and, being a failed call, leave everything as it was
	FailedCreate bool `json:"failedCreate,omitempty"`
	// Rename: the bucket is reopened under another bucket name (the name is the caller's label for
	// the open bucket; what is stored at the URL, UUID included, is the same bucket)
	Rename bool `json:"rename,omitempty"`
}

// crashProfile: histories for the child (documents, xattrs, deletes, design docs, views, purge,
// collection drops) on a disk bucket with one handle.
func crashProfile() *Profile {
	pr := viewProfile()
	pr.Keys = []string{"a", "b", "c"}
	pr.MultiHandle = false
	pr.Reopen, pr.Purge = 0, 2
	pr.Config = func(rt *rapid.T, c *Config) {
		c.Disk = false // the generating run is a scratch world; the child replays the steps on disk
		c.Handles = 1
		c.MaxDocSize = 0
		c.Feeds = nil
		if len(c.Colls) > 2 {
			c.Colls = c.Colls[:2]
		}
	}
	pr.Extra = []ExtraAction{
		{Name: "PutDDoc", Weight: 2, Gen: genPutDDoc},
		{Name: "View", Weight: 4, Gen: func(rt *rapid.T, r *Run) (Op, bool) {
			op, ok := genViewQueryOp(rt, r)
			if ok {
				op.View.Q = &ViewQuery{} // plain stale=false query: builds / updates the index
			}
			return op, ok
		}},
		{Name: "DropColl", Weight: 1, Gen: genDropColl},
		{Name: "CreateColl", Weight: 1, Gen: genCreateColl},
	}
	pr.Exclude = func(op Op, p St, ki *KeyInfo) bool {
		return excludedBy("C12", op, p, ki) || excludedBy("C10", op, p, ki)
	}
	return pr
}

// afterCrash opens the directory in this (fresh) process and checks what is there.
func afterCrash(cc *crashCase, dir, name string, res *ChildResult) (devs []Deviation, applied string) {
	c10 := []string{"C10"}
	bad := func(clause, f string, a ...any) {
		devs = append(devs, Deviation{Clause: clause, Props: c10, Step: len(res.Acks), Msg: fmt.Sprintf(f, a...), Sig: clause})
	}
	if res.Ready == nil {
		bad("crash.child", "child never reported READY: exit %s stderr %.300s", res.ExitErr, res.Stderr)
		return
	}
	model := res.Ready.Model
	var ddocs map[int]map[string]map[string]ViewSpec
	if n := len(res.Acks); n > 0 {
		model = res.Acks[n-1].Model
		ddocs = res.Acks[n-1].DDocs
		for _, a := range res.Acks {
			for _, d := range a.Devs {
				// the child runs the full oracle too; its own deviations are not crash findings
				_ = d
			}
		}
	}
	fixModel(model)
	var inflight *Op
	if len(res.Acks) < len(cc.Steps) {
		inflight = &cc.Steps[len(res.Acks)]
	}
	cfg := cc.Config
	cfg.Disk = true
	cfg.Feeds = nil
	// which collections must exist
	wantColls := []string{}
	for i, n := range cfg.Colls {
		if !model.Colls[i].Dropped {
			wantColls = append(wantColls, n)
		}
	}
	if cc.FailedCreate {
		if b, err := rosmar.OpenBucket("rosmar://"+filepath.Join(dir, "b"), name, rosmar.CreateNew); err == nil {
			bad("crash.createnew", "OpenBucket(CreateNew) on the existing bucket succeeded")
			b.Close(ctx)
		}
	}
	if cc.Rename {
		name += "r"
	}
	w, err := NewWorldAt(cfg, dir, name, true)
	if err != nil {
		bad("crash.reopen", "cannot reopen the bucket after the kill (failed CreateNew attempt before: %v): %v", cc.FailedCreate, err)
		return
	}
	defer w.Close()
	w.Model = model
	run := NewRun(w, "C10")
	run.DDocs = ddocs
	run.step = len(res.Acks)
	if uuid, err := w.Handles[0].UUID(); err != nil || uuid != res.Ready.UUID {
		bad("crash.uuid", "UUID after reopen %q (err %v), before %q", uuid, err, res.Ready.UUID)
	}
	// collections
	got, err := run.listColls(0)
	sort.Strings(wantColls)
	if err != nil {
		bad("crash.colls", "ListDataStores failed: %v", err)
		return
	}
	if strings.Join(got, ",") != strings.Join(wantColls, ",") {
		ok := false
		if inflight != nil && (inflight.K == "DropColl" || inflight.K == "CreateColl") {
			// all-or-nothing: the in-flight drop/create may have happened
			alt := map[string]bool{}
			for _, n := range wantColls {
				alt[n] = true
			}
			target := cfg.Colls[inflight.C]
			if inflight.K == "DropColl" {
				delete(alt, target)
			} else {
				alt[target] = true
			}
			var as []string
			for n := range alt {
				as = append(as, n)
			}
			sort.Strings(as)
			if strings.Join(got, ",") == strings.Join(as, ",") {
				ok = true
				applied = inflight.K
				model.Colls[inflight.C].Dropped = inflight.K == "DropColl"
				if inflight.K == "DropColl" {
					for _, ki := range model.Colls[inflight.C].Docs {
						ki.St = St{}
					}
					delete(run.DDocs, inflight.C)
				}
			}
		}
		if !ok {
			bad("crash.colls", "collections after reopen %v, expected %v", got, wantColls)
			return
		}
	}
	// documents
	if inflight != nil && inflight.Key != "" && inflight.C < len(model.Colls) && !model.Colls[inflight.C].Dropped {
		model.Info(inflight.C, inflight.Key) // make sure the interrupted call's key is looked at
		for k := range inflight.X {
			if validXattrName(k) {
				model.Info(inflight.C, inflight.Key).XNames[k] = true
			}
		}
	}
	purgeApplied, purgeKept := 0, 0
	for ci := range cfg.Colls {
		if model.Colls[ci].Dropped {
			continue
		}
		for _, k := range model.Keys(ci) {
			ki := model.Info(ci, k)
			want := ki.St
			obs, cdevs := Observe(w.Coll(0, ci), k, append(ki.XNameList(), "_sync", "_vv", "_mou", "_sy", "user", "u2"))
			for _, d := range cdevs {
				d.Props = c10
				d.Msg = "after reopen: " + d.Msg
				devs = append(devs, d)
			}
			if inflight != nil && inflight.K == "Purge" && want.Present && want.Body == nil {
				if !obs.Present {
					purgeApplied++
					model.Commit(ci, k, obs, "Purge")
					continue
				}
				purgeKept++
			}
			if obs.Equal(want) {
				continue
			}
			if inflight != nil && inflight.Key == k && inflight.C == ci && inflight.Key != "" {
				if ok, why := validAfter(w, *inflight, want, obs); ok {
					applied = inflight.K
					model.Commit(ci, k, obs, inflight.K)
					if obs.Present && obs.Cas > model.MaxIssued && !family(*inflight).meta {
						model.MaxIssued = obs.Cas
					}
					continue
				} else {
					bad("crash.atomic", "the call interrupted by the kill (%s) left %s/%q in a state that is neither the one before nor a complete result of the call: before %s, after reopen %s (%s)", inflight, cfg.Colls[ci], k, want, obs, why)
					model.Commit(ci, k, obs, "")
					continue
				}
			}
			bad("crash.durable", "%s/%q after reopen is %s, but the last acknowledged state was %s (%d calls acknowledged, in flight: %v)", cfg.Colls[ci], k, obs, want, len(res.Acks), inflight)
			model.Commit(ci, k, obs, "")
		}
	}
	if purgeApplied > 0 && purgeKept > 0 {
		bad("crash.atomic", "interrupted PurgeTombstones removed %d tombstones and kept %d", purgeApplied, purgeKept)
	}
	// design documents: acknowledged ones present with all their views (in-flight PutDDoc/DeleteDDoc: either)
	for ci := range cfg.Colls {
		if model.Colls[ci].Dropped {
			continue
		}
		dd, err := w.Coll(0, ci).(sgbucket.ViewStore).GetDDocs()
		if err != nil {
			bad("crash.ddocs", "GetDDocs failed after reopen: %v", err)
			continue
		}
		want := run.ddocs(ci)
		if inflight != nil && (inflight.K == "PutDDoc" || inflight.K == "DeleteDDoc") && inflight.C == ci {
			name := inflight.View.DDoc
			got, has := dd[name]
			switch {
			case inflight.K == "PutDDoc" && has && sameViews(got, inflight.View.Specs):
				want[name] = inflight.View.Specs
				applied = "PutDDoc"
			case inflight.K == "DeleteDDoc" && !has:
				delete(want, name)
				applied = "DeleteDDoc"
			}
		}
		for name, specs := range want {
			got, has := dd[name]
			if !has || !sameViews(got, specs) {
				bad("crash.ddocs", "design doc %s of %s after reopen: present=%v views=%v, expected the acknowledged one with views %v", name, cfg.Colls[ci], has, got.Views, specs)
			}
		}
		for name := range dd {
			if _, ok := want[name]; !ok && !strings.HasPrefix(name, "fresh") {
				bad("crash.ddocs", "design doc %s of %s exists after reopen but was never acknowledged / was deleted", name, cfg.Colls[ci])
			}
		}
	}
	// follow-up: the reopened bucket behaves (views consistent with documents = high-water mark
	// moved with the documents; new CAS above everything seen; reads stable)
	before := len(run.Devs)
	for ci := range cfg.Colls {
		if model.Colls[ci].Dropped {
			continue
		}
		for dd, views := range run.ddocs(ci) {
			for v := range views {
				run.nDo++
				run.viewDifferential(ci, dd, v)
			}
		}
	}
	for _, op := range cc.After {
		if op.Key != "" && model.Colls[op.C].Dropped {
			continue
		}
		run.Do(op)
	}
	run.Stable()
	for _, d := range run.Devs[before:] {
		d.Props = c10
		d.Msg = "after reopen: " + d.Msg
		d.Clause = "crash.after." + d.Clause
		devs = append(devs, d)
	}
	return
}

func sameViews(dd sgbucket.DesignDoc, specs map[string]ViewSpec) bool {
	if len(dd.Views) != len(specs) {
		return false
	}
	for name, v := range specs {
		got, ok := dd.Views[name]
		if !ok || got.Map != v.JS() || got.Reduce != v.Reduce {
			return false
		}
	}
	return true
}

// validAfter: is obs a complete result of applying op to prior?
func validAfter(w *World, op Op, prior, obs St) (bool, string) {
	if op.K == "" || op.Key == "" {
		return false, "not a document operation"
	}
	res := Result{T0: nowSec() - 120, T1: nowSec()}
	res.CasArg, res.CasClass = w.resolveCas(op.C, op.Key, op.Cas)
	eop := op
	if eop.Exp.Kind == "abs" {
		eop.Exp.Kind = "rel" // the child resolved now+V at its own time: accept the whole window
	}
	if eop.CbExp != nil && eop.CbExp.Kind == "abs" {
		e := *eop.CbExp
		e.Kind = "rel"
		eop.CbExp = &e
	}
	if family(op).meta {
		res.MetaCasArg = obs.Cas
		res.ExpArg = obs.Exp
	}
	res.Cas = obs.Cas
	var why []string
	alts := ExpectAll(eop, prior, res)
	if eop.CbExpOnce {
		// how often the interrupted call had invoked its callback is unknown: both the first
		// attempt's result (with the callback's expiry) and a retried attempt's (without) are complete
		res2 := res
		res2.Cb = []CbObs{{}, {}}
		alts = append(alts, ExpectAll(eop, prior, res2)...)
	}
	for _, a := range alts {
		if a.Same {
			continue
		}
		a.Ret = nil
		a.Added = nil
		a.NoRetCas = true
		fails := evalAlt(a, eop, prior, res, obs, w.Model)
		var real []string
		for _, f := range fails {
			if f.clause == "outcome" || f.clause == "ret" || f.clause == "added" {
				continue
			}
			real = append(real, f.clause+": "+f.msg)
		}
		if len(real) == 0 {
			return true, ""
		}
		why = append(why, a.Name+" -> "+strings.Join(real, "; "))
	}
	return false, strings.Join(why, " | ")
}

// viewDifferential: incremental index == fresh index (no model needed).
func (r *Run) viewDifferential(ci int, dd, v string) {
	spec := r.ddocs(ci)[dd][v]
	vs := r.W.Coll(0, ci).(sgbucket.ViewStore)
	params := map[string]any{"stale": false, "reduce": false}
	res, err := vs.View(ctx, dd, v, params)
	if err != nil {
		r.dev("view.err", []string{"C12"}, "View(%s/%s) failed: %v", dd, v, err)
		return
	}
	freshSerial++
	fname := fmt.Sprintf("fresh%d", freshSerial)
	if err := vs.PutDDoc(ctx, fname, designDoc(map[string]ViewSpec{"v": spec})); err != nil {
		r.dev("view.fresh", []string{"C12"}, "PutDDoc(fresh) failed: %v", err)
		return
	}
	fres, ferr := vs.View(ctx, fname, "v", params)
	_ = vs.DeleteDDoc(fname)
	if ferr != nil {
		r.dev("view.fresh", []string{"C12"}, "fresh view failed: %v", ferr)
		return
	}
	if a, b := normRows(gotRows(res)), normRows(gotRows(fres)); !rowsEqual(a, b) {
		r.Devs = append(r.Devs, Deviation{Clause: "view.incremental", Props: []string{"C12"}, Step: r.step,
			Msg: fmt.Sprintf("the index of %s/%s (built before) returns %v, a freshly built identical view returns %v: the collection's high-water mark and its documents disagree", dd, v, a, b), Sig: "view.incremental"})
	}
}

// runCrashCase: child with the crash armed, then the parent-side checks.
func runCrashCase(cc *crashCase) ([]Deviation, *ChildResult, string, error) {
	dir, err := os.MkdirTemp(tmpRoot(), "crash")
	if err != nil {
		return nil, nil, "", err
	}
	defer os.RemoveAll(dir)
	name := fmt.Sprintf("cr%s_%d", shardTag, time.Now().UnixNano())
	cfg := cc.Config
	cfg.Disk = true
	plan := &ChildPlan{Dir: dir, Name: name, Config: cfg, Steps: cc.Steps, NoClose: true, KeepIndexed: true}
	if cc.Crash.Hook != "" {
		plan.Crash = &cc.Crash
	}
	res, err := RunChild(plan, 60*time.Second)
	if err != nil {
		return nil, nil, "", err
	}
	if cc.Crash.Hook != "" && !res.Killed {
		if res.Done {
			return nil, res, "", nil // the crash point was not reached in this run (timing-dependent hook)
		}
		return []Deviation{{Clause: "crash.child", Props: []string{"C10", "C20"}, Msg: fmt.Sprintf("child died by itself: %s\n%.1500s", res.ExitErr, res.Stderr)}}, res, "", nil
	}
	devs, applied := afterCrash(cc, dir, name, res)
	return devs, res, applied, nil
}

func TestC10(t *testing.T) {
	st := statsFor("C10", "TestC10")
	st.Rule = "fault enumeration: rapid generates a history (documents, xattrs, deletes, purge, design docs, view queries, collection drop / re-creation); a dry-run child counts how often each hook point (tx.begin, cas.afterDocWrite, tx.beforeCommit, tx.afterCommit, cas.beforePost, meta.beforePost, subdoc.betweenReadWrite) is reached; for drawn (quick) or all (thorough, short histories) <hook, occurrence> pairs (a third of the histories with a purge / design-document / collection call place one kill inside that call) a child replays the history on a fresh on-disk bucket, acknowledging each returned call, and SIGKILLs itself at that point; this process then opens the directory and compares every key with the last acknowledged state (in-flight call: before or complete result), UUID, collections, design docs, incremental-vs-fresh view, and continues with generated operations; non-trivial = the kill lands inside a transaction or between sub-steps of a call that is not the first or last of a history containing an xattr write and a delete; distinct by <history signature, hook, occurrence>"
	judge := func(devs []Deviation) []Deviation {
		var out []Deviation
		for _, d := range devs {
			if !d.Has("C10") {
				continue
			}
			if id, ok := tolerated("C10", d); ok {
				st.KnownHits[id]++
				continue
			}
			out = append(out, d)
		}
		return out
	}
	if replayMode() {
		rp := loadReplay("TestC10")
		if rp == nil {
			t.Skip("replay file is for another test")
		}
		var cc crashCase
		if err := json.Unmarshal(rp.Extra, &cc); err != nil {
			t.Fatal(err)
		}
		devs, _, _, err := runCrashCase(&cc)
		if err != nil {
			t.Fatalf("infrastructure: %v", err)
		}
		st.Case(1, true, func() any { return cc.Crash })
		if ds := judge(devs); len(ds) > 0 {
			t.Fatalf("property C10 violated by replay:%s", devText(ds))
		}
		return
	}
	pr := crashProfile()
	var once sync.Once
	perHistory := 3
	if tier() == "thorough" {
		perHistory = 12
	}
	rapid.Check(t, func(rt *rapid.T) {
		// 1. generate the history on a scratch world
		run, rp := SeqCase(rt, "C10", "TestC10", pr)
		cfg := run.W.Cfg
		sig := run.Signature()
		hasX, hasDel := false, false
		for _, tr := range run.Trace {
			if isDocOp(tr) && tr.Err == "" {
				f := family(tr.Op)
				hasX = hasX || f.xattr
				hasDel = hasDel || f.del
			}
		}
		run.Close()
		if len(rp.Steps) == 0 {
			return
		}
		after := []Op{}
		for i := 0; i < 4; i++ {
			k := pick(rt, pr.Keys, "after.key")
			after = append(after, Op{K: "Set", Key: k, C: 0, Body: []byte(fmt.Sprintf(`{"k":%d,"type":"t1"}`, i))},
				Op{K: pick(rt, []string{"Delete", "Touch", "Add", "WriteCas"}, "after.op"), Key: pick(rt, pr.Keys, "after.key2"), Body: []byte(`{"n":1}`), Cas: CasSpec{Kind: "current"}})
		}
		// 2. dry run: how often is each hook reached
		dir, _ := os.MkdirTemp(tmpRoot(), "dry")
		dcfg := cfg
		dcfg.Disk = true
		dry, err := RunChild(&ChildPlan{Dir: dir, Name: fmt.Sprintf("dry%s_%d", shardTag, time.Now().UnixNano()), Config: dcfg, Steps: rp.Steps, Count: true, KeepIndexed: true}, 60*time.Second)
		os.RemoveAll(dir)
		if err != nil || dry == nil || !dry.Done {
			msg := ""
			if dry != nil {
				msg = dry.ExitErr + " " + dry.Stderr
			}
			rt.Fatalf("INFRA: dry-run child failed: %v %.500s", err, msg)
		}
		points := hookPoints(dry.Counts, crashHooks)
		if len(points) == 0 {
			return
		}
		// 3. crash at drawn points
		n := perHistory
		if n > len(points) {
			n = len(points)
		}
		chosen := map[int]bool{}
		// bucket-level calls (purge, design documents, collection create / drop) touch several rows
		// or collections in one call: a third of the histories that have one place a kill inside it
		var inBucketOp []int
		for _, a := range dry.Acks {
			if a.I < 0 || a.I >= len(rp.Steps) {
				continue
			}
			switch rp.Steps[a.I].K {
			case "Purge", "PutDDoc", "DropColl", "CreateColl":
				for pi, p := range points {
					if p.Nth > a.HooksBefore[p.Hook] && p.Nth <= a.HooksAfter[p.Hook] {
						inBucketOp = append(inBucketOp, pi)
					}
				}
			}
		}
		if len(inBucketOp) > 0 && chance(rt, 35, "crash.inbucketop") {
			chosen[inBucketOp[rapid.IntRange(0, len(inBucketOp)-1).Draw(rt, "crashpoint.bucketop")]] = true
		}
		for len(chosen) < n {
			chosen[rapid.IntRange(0, len(points)-1).Draw(rt, "crashpoint")] = true
		}
		idx := make([]int, 0, n)
		for i := range chosen {
			idx = append(idx, i)
		}
		sort.Ints(idx)
		for _, i := range idx {
			cc := &crashCase{Config: cfg, Steps: rp.Steps, Crash: points[i], After: after, FailedCreate: (i+len(rp.Steps))%3 == 0, Rename: (i+len(rp.Steps))%4 == 1}
			devs, res, applied, err := runCrashCase(cc)
			if err != nil {
				rt.Fatalf("INFRA: %v", err)
			}
			if res == nil {
				continue
			}
			acked := len(res.Acks)
			inside := points[i].Hook != "tx.begin" && acked > 0 && acked < len(rp.Steps)-1
			st.Case(sig^fnvString(fmt.Sprintf("%s#%d", points[i].Hook, points[i].Nth)), inside && hasX && hasDel, func() any {
				return map[string]any{"steps": len(rp.Steps), "crash": points[i], "acked": acked, "in_flight_applied": applied, "history": sampleOf(run)}
			})
			st.Label("hook", points[i].Hook)
			st.Label("inflight", fmt.Sprintf("applied=%v", applied != ""))
			if ds := judge(devs); len(ds) > 0 {
				once.Do(func() {
					b, _ := json.Marshal(cc)
					saveReplay(&Replay{Property: "C10", Test: "TestC10", Extra: b, Expect: ds})
					st.Violations++
				})
				rt.Fatalf("property C10 violated (replay %s): kill at %s#%d after %d acknowledged calls:%s", replayPath("C10", "TestC10"), points[i].Hook, points[i].Nth, acked, devText(ds))
			}
		}
	})
}

// ---- pending expirations survive a kill ------------------------------------------------------------

type crashExpCase struct {
	TTL   int        `json:"ttl"`
	Via   string     `json:"via"`   // entry point that set the expiry
	Crash CrashPoint `json:"crash"` // where the child dies (after the expiry write was acknowledged)
	Extra int        `json:"extra"` // further acknowledged writes (without expiry) before the kill
	// Overdue: reopen only after the expiry time has passed (nobody had the bucket open at T)
	Overdue bool `json:"overdue,omitempty"`
}

func runCrashExpCase(c crashExpCase) ([]Deviation, error) {
	var devs []Deviation
	bad := func(clause, f string, a ...any) {
		devs = append(devs, Deviation{Clause: clause, Props: []string{"C10", "C14"}, Sig: clause, Msg: fmt.Sprintf(f, a...)})
	}
	dir, err := os.MkdirTemp(tmpRoot(), "cexp")
	if err != nil {
		return nil, err
	}
	defer os.RemoveAll(dir)
	name := fmt.Sprintf("cx%s_%d", shardTag, time.Now().UnixNano())
	cfg := Config{Disk: true, Handles: 1, Colls: allCollNames[:1]}
	steps := []Op{{K: "Set", Key: "keep", Body: []byte(`{"k":1}`)}}
	exp := ExpSpec{Kind: "abs", V: uint32(c.TTL)}
	meta := func(key, body string, cas string, e ExpSpec) Op {
		return Op{K: "SetWithMeta", Key: key, Body: []byte(body), JSON: true, MetaCas: "above", Cas: CasSpec{Kind: cas}, Exp: e}
	}
	switch c.Via {
	case "SetWithMeta":
		// a bucket that is written through *WithMeta only (as a replication target is): no call of
		// the regular write API ever assigns a CAS of the bucket's own
		steps = []Op{meta("keep", `{"k":1}`, "zero", ExpSpec{Kind: "zero"}), meta("soon", `{"s":1}`, "zero", exp)}
	case "Set":
		steps = append(steps, Op{K: "Set", Key: "soon", Body: []byte(`{"s":1}`), Exp: exp})
	case "Touch":
		steps = append(steps, Op{K: "Set", Key: "soon", Body: []byte(`{"s":1}`)}, Op{K: "Touch", Key: "soon", Exp: exp})
	case "WriteWithXattrs":
		steps = append(steps, Op{K: "WriteWithXattrs", Key: "soon", Body: []byte(`{"s":1}`), X: map[string]string{"_sync": `{"seq":1}`}, Cas: CasSpec{Kind: "zero"}, Exp: exp, NilOpts: true})
	case "Add":
		steps = append(steps, Op{K: "Add", Key: "soon", Body: []byte(`{"s":1}`), Exp: exp})
	}
	expStep := len(steps) - 1
	for i := 0; i < c.Extra; i++ {
		if c.Via == "SetWithMeta" {
			steps = append(steps, meta("keep", fmt.Sprintf(`{"k":%d}`, i+2), "current", ExpSpec{Kind: "zero"}))
		} else {
			steps = append(steps, Op{K: "Set", Key: "keep", Body: []byte(fmt.Sprintf(`{"k":%d}`, i+2))})
		}
	}
	// the trailing step is the one the kill interrupts
	if c.Via == "SetWithMeta" {
		steps = append(steps, meta("last", `{"l":1}`, "zero", ExpSpec{Kind: "zero"}))
	} else {
		steps = append(steps, Op{K: "Set", Key: "last", Body: []byte(`{"l":1}`)})
	}
	res, err := RunChild(&ChildPlan{Dir: dir, Name: name, Config: cfg, Steps: steps, Crash: &c.Crash, NoClose: true}, 60*time.Second)
	if err != nil {
		return nil, err
	}
	if res.Ready == nil {
		return nil, fmt.Errorf("child did not start: %s %.300s", res.ExitErr, res.Stderr)
	}
	if len(res.Acks) <= expStep {
		return nil, nil // died before the expiry write was acknowledged: nothing to judge
	}
	deadline := res.Acks[expStep].Model.Get(0, "soon").Exp
	if deadline == 0 {
		bad("crashexp.setup", "the acknowledged expiry write left expiry 0")
		return devs, nil
	}
	if c.Overdue {
		for nowSec() <= deadline {
			time.Sleep(100 * time.Millisecond)
		}
	}
	w, err := NewWorldAt(cfg, dir, name, true)
	if err != nil {
		bad("crash.reopen", "cannot reopen after the kill: %v", err)
		return devs, nil
	}
	defer w.Close()
	ds := w.Coll(0, 0)
	opened := nowSec()
	if e, gerr := ds.GetExpiry(ctx, "soon"); !c.Overdue && (gerr != nil || e != deadline) {
		bad("crashexp.value", "after reopen GetExpiry(soon) = %d (err %v), the acknowledged expiry was %d", e, gerr, deadline)
	}
	due := deadline
	if opened > due {
		due = opened // overdue when the bucket was opened: "soon after" counts from the open
	}
	// no client activity on the bucket other than reads: the document must go away by itself
	for {
		t0 := nowSec()
		_, _, gerr := ds.GetRaw("soon")
		t1 := nowSec()
		if gerr != nil {
			if t1 < deadline {
				bad("crashexp.early", "the document expired at second %d, before its expiry %d", t1, deadline)
			}
			break
		}
		if t0 >= due+expGuard {
			bad("crashexp.late", "the document whose expiry (%d) was acknowledged before the kill is still readable at second %d after reopening (at second %d): the pending expiration was lost", deadline, t0, opened)
			break
		}
		time.Sleep(100 * time.Millisecond)
	}
	if _, _, gerr := ds.GetRaw("keep"); gerr != nil {
		bad("crash.durable", "an acknowledged document without expiry is gone after reopen: %v", gerr)
	}
	return devs, nil
}

func TestC10Expiry(t *testing.T) {
	st := statsFor("C10", "TestC10Expiry")
	st.Rule = "a child process sets a 2-4 s expiry through Set / Add / Touch / WriteWithXattrs / SetWithMeta (the latter in a bucket written through *WithMeta only), acknowledges it and 0-3 further writes, and is SIGKILLed at a generated hook occurrence of a later write; this process reopens the bucket and only reads: the expiry value must be the acknowledged one, the document must stay until its second and be gone within 5 s after it (in 40% of the cases the bucket is reopened only after the expiry time has passed: gone within 5 s after the open); non-trivial = all of them (the expiry write was acknowledged before the kill); distinct by case parameters"
	if replayMode() {
		rp := loadReplay("TestC10Expiry")
		if rp == nil {
			t.Skip("replay file is for another test")
		}
		var c crashExpCase
		if err := json.Unmarshal(rp.Extra, &c); err != nil {
			t.Fatal(err)
		}
		ds, err := runCrashExpCase(c)
		if err != nil {
			t.Fatalf("infrastructure: %v", err)
		}
		st.Case(1, true, func() any { return c })
		if len(ds) > 0 {
			t.Fatalf("property C10 violated by replay:%s", devText(ds))
		}
		return
	}
	var once sync.Once
	rapid.Check(t, func(rt *rapid.T) {
		n := 8
		cases := make([]crashExpCase, n)
		for i := range cases {
			c := crashExpCase{TTL: rapid.IntRange(2, 4).Draw(rt, "ttl"), Via: pick(rt, []string{"Set", "Touch", "WriteWithXattrs", "Add", "SetWithMeta"}, "via"), Extra: rapid.IntRange(0, 3).Draw(rt, "extra"), Overdue: chance(rt, 40, "overdue")}
			c.Crash = CrashPoint{Hook: pick(rt, []string{"tx.begin", "cas.afterDocWrite", "tx.beforeCommit", "tx.afterCommit", "cas.beforePost"}, "hook")}
			// occurrences: one per write for every hook used here; the kill hits the trailing write or one of the extras
			writes := 2 + c.Extra
			if c.Via == "Touch" {
				writes++
			}
			if c.Via == "SetWithMeta" {
				// (*WithMeta writes pass the transaction hooks only)
				c.Crash.Hook = pick(rt, []string{"tx.begin", "tx.beforeCommit", "tx.afterCommit"}, "hook.meta")
			}
			c.Crash.Nth = writes + 1 - rapid.IntRange(0, c.Extra).Draw(rt, "back")
			if c.Via == "Touch" && c.Crash.Hook == "cas.beforePost" {
				c.Crash.Nth-- // a touch posts no event
			}
			cases[i] = c
		}
		results := make([][]Deviation, n)
		errs := make([]error, n)
		var wg sync.WaitGroup
		for i := range cases {
			wg.Add(1)
			go func(i int) {
				defer wg.Done()
				results[i], errs[i] = runCrashExpCase(cases[i])
			}(i)
		}
		wg.Wait()
		for i, ds := range results {
			if errs[i] != nil {
				rt.Fatalf("INFRA: %v", errs[i])
			}
			b, _ := json.Marshal(cases[i])
			st.Case(fnvString(string(b)), true, func() any { return cases[i] })
			if len(ds) > 0 {
				once.Do(func() {
					saveReplay(&Replay{Property: "C10", Test: "TestC10Expiry", Extra: b, Expect: ds})
					st.Violations++
				})
				rt.Fatalf("property C10 violated (replay %s): %+v:%s", replayPath("C10", "TestC10Expiry"), cases[i], devText(ds))
			}
		}
	})
}
