package h

// C02 (c): "two writers that both read version v can never both succeed in replacing v", searched by
// contention: several goroutines issue conditional writes with the same expected CAS at the same
// moment (start barrier), with seeded scheduling noise inside the transactions so that whatever a
// call does outside the serialised section overlaps with the others.

import (
	"encoding/json"
	"fmt"
	"sync"
	"testing"

	sgbucket "github.com/couchbase/sg-bucket"
	"pgregory.net/rapid"
)

type contendPlan struct {
	Disk    bool       `json:"disk"`
	Handles int        `json:"handles"`
	Rounds  [][]string `json:"rounds"` // per round: the conditional call of each lane
	Tomb    []bool     `json:"tomb"`   // per round: start from a tombstone (with xattrs) instead of a live document
	Seed    int64      `json:"seed"`
}

var contendKinds = []string{"WriteCas", "Remove", "WriteWithXattrs", "UpdateXattrs", "RemoveXattrs", "WriteTombstoneWithXattrs", "SetWithMeta", "DeleteWithMeta", "WriteSubDoc", "SubdocInsert", "WriteCasRaw"}

func runContendPlan(p contendPlan) (devs []Deviation, err error) {
	w, err := NewWorld(Config{Disk: p.Disk, Handles: p.Handles, Colls: allCollNames[:1]})
	if err != nil {
		return nil, err
	}
	defer w.Close()
	restore := noiseHook(p.Seed, w.Name)
	defer restore()
	bad := func(clause, f string, a ...any) {
		devs = append(devs, Deviation{Clause: clause, Props: []string{"C02", "C03"}, Sig: clause, Msg: fmt.Sprintf(f, a...)})
	}
	ds0 := w.Coll(0, 0)
	for ri, lanes := range p.Rounds {
		key := fmt.Sprintf("k%d", ri%3)
		// a known version v
		if _, e := ds0.WriteWithXattrs(ctx, key+"x", 0, 0, []byte(`{"seed":1}`), nil, nil, nil); e != nil {
			_ = e
		}
		_ = ds0.Set(key, 0, nil, []byte(fmt.Sprintf(`{"round":%d,"p":{"q":1}}`, ri)))
		if _, e := ds0.SetXattrs(ctx, key, map[string][]byte{"_sync": []byte(`{"seq":1}`), "_vv": []byte(`{"v":1}`)}); e != nil {
			return nil, e
		}
		if p.Tomb[ri] {
			if e := ds0.Delete(key); e != nil {
				return nil, e
			}
		}
		before, _ := Observe(ds0, key, []string{"_sync", "_vv", "_mou"})
		v := before.Cas
		type outcome struct {
			kind string
			err  error
			cas  uint64
		}
		outs := make([]outcome, len(lanes))
		start := make(chan struct{})
		var wg sync.WaitGroup
		for li, kind := range lanes {
			wg.Add(1)
			go func(li int, kind string) {
				defer wg.Done()
				defer func() {
					if r := recover(); r != nil {
						outs[li].err = fmt.Errorf("PANIC: %v", r)
					}
				}()
				ds := w.Coll(li%p.Handles, 0)
				rc := w.RColl(li%p.Handles, 0)
				body := []byte(fmt.Sprintf(`{"lane":%d,"p":{"q":2}}`, li))
				<-start
				var e error
				var cas uint64
				switch kind {
				case "WriteCas":
					cas, e = ds.WriteCas(key, 0, v, body, 0)
				case "WriteCasRaw":
					cas, e = ds.WriteCas(key, 0, v, body, sgbucket.Raw)
				case "Remove":
					cas, e = ds.Remove(key, v)
				case "WriteWithXattrs":
					var b []byte
					if !p.Tomb[ri] {
						b = body
					}
					cas, e = ds.WriteWithXattrs(ctx, key, 0, v, b, map[string][]byte{"_mou": []byte(fmt.Sprintf(`{"lane":%d}`, li))}, nil, nil)
				case "UpdateXattrs":
					cas, e = ds.UpdateXattrs(ctx, key, 0, v, map[string][]byte{"_mou": []byte(fmt.Sprintf(`{"lane":%d}`, li))}, nil)
				case "RemoveXattrs":
					e = ds.RemoveXattrs(ctx, key, []string{"_vv"}, v)
				case "WriteTombstoneWithXattrs":
					cas, e = ds.WriteTombstoneWithXattrs(ctx, key, 0, v, map[string][]byte{"_mou": []byte(fmt.Sprintf(`{"lane":%d}`, li))}, nil, !p.Tomb[ri], nil)
				case "SetWithMeta":
					e = rc.SetWithMeta(ctx, key, v, v+uint64(1000+li), 0, nil, body, sgbucket.FeedDataTypeJSON)
				case "DeleteWithMeta":
					e = rc.DeleteWithMeta(ctx, key, v, v+uint64(2000+li), 0, nil)
				case "WriteSubDoc":
					cas, e = ds.WriteSubDoc(ctx, key, fmt.Sprintf("lane%d", li), v, []byte(`1`))
				case "SubdocInsert":
					e = ds.SubdocInsert(ctx, key, fmt.Sprintf("ins%d", li), v, 1)
				}
				outs[li] = outcome{kind: kind, err: e, cas: cas}
			}(li, kind)
		}
		close(start)
		wg.Wait()
		after, _ := Observe(ds0, key, []string{"_sync", "_vv", "_mou"})
		var winners []string
		for li, o := range outs {
			if o.err == nil {
				winners = append(winners, fmt.Sprintf("lane %d %s", li, o.kind))
			} else if cls := errClass(o.err); cls == "other" && !p.Tomb[ri] {
				// (on tombstones some calls legitimately fail for other reasons, e.g. not a JSON object)
				if len(o.err.Error()) > 6 && o.err.Error()[:6] == "PANIC:" {
					bad("contend.panic", "round %d: %s panicked: %v", ri, o.kind, o.err)
				}
			}
		}
		if len(winners) > 1 {
			bad("contend.both", "round %d (tombstone=%v): %d conditional writes that all carried the CAS %#x of the same version succeeded: %v; before %s, after %s", ri, p.Tomb[ri], len(winners), v, winners, before, after)
		}
		if len(winners) == 0 && !after.Equal(before) {
			bad("contend.changed", "round %d: every conditional write failed but the document changed: before %s, after %s (%v)", ri, before, after, lanes)
		}
		if len(winners) == 1 && after.Cas == v {
			bad("contend.lost", "round %d: %s reported success but the document still has CAS %#x", ri, winners[0], v)
		}
	}
	return
}

func TestC02Contend(t *testing.T) {
	st := statsFor("C02", "TestC02Contend")
	st.Rule = "contention search: in each of 10-40 rounds a document (live with xattrs, or a tombstone with xattrs) is brought to a known version v, then 2-6 goroutines on 1-3 handles start at a barrier and each issue one conditional write carrying v (WriteCas, raw WriteCas, Remove, WriteWithXattrs, UpdateXattrs, RemoveXattrs, WriteTombstoneWithXattrs, SetWithMeta, DeleteWithMeta, WriteSubDoc, SubdocInsert), with seeded scheduling noise at the hook points inside the transactions; at most one may succeed, and the document must then carry a new CAS; if none succeeds it must be unchanged; non-trivial = a round with at least 3 lanes of at least 2 different kinds; distinct by plan"
	if replayMode() {
		rp := loadReplay("TestC02Contend")
		if rp == nil {
			t.Skip("replay file is for another test")
		}
		var p contendPlan
		if err := json.Unmarshal(rp.Extra, &p); err != nil {
			t.Fatal(err)
		}
		for i := 0; i < 25; i++ {
			p.Seed += int64(i)
			ds, err := runContendPlan(p)
			if err != nil {
				t.Fatalf("infrastructure: %v", err)
			}
			if len(ds) > 0 {
				t.Fatalf("property C02 violated by replay (attempt %d):%s", i, devText(ds))
			}
		}
		st.Case(1, true, func() any { return p })
		return
	}
	var once sync.Once
	rapid.Check(t, func(rt *rapid.T) {
		p := contendPlan{Disk: chance(rt, 35, "disk"), Handles: rapid.IntRange(1, 3).Draw(rt, "handles"), Seed: int64(rapid.IntRange(1, 1<<30).Draw(rt, "seed"))}
		rounds := rapid.IntRange(10, 40).Draw(rt, "rounds")
		nontrivial := false
		for r := 0; r < rounds; r++ {
			n := rapid.IntRange(2, 6).Draw(rt, "lanes")
			var lanes []string
			kinds := map[string]bool{}
			for i := 0; i < n; i++ {
				k := pick(rt, contendKinds, "kind")
				lanes = append(lanes, k)
				kinds[k] = true
			}
			if n >= 3 && len(kinds) >= 2 {
				nontrivial = true
			}
			p.Rounds = append(p.Rounds, lanes)
			p.Tomb = append(p.Tomb, chance(rt, 20, "tomb"))
		}
		ds, err := runContendPlan(p)
		if err != nil {
			rt.Fatalf("INFRA: %v", err)
		}
		b, _ := json.Marshal(p)
		st.Case(fnvString(string(b)), nontrivial, func() any { return p })
		var out []Deviation
		for _, d := range ds {
			if id, ok := tolerated("C02", d); ok {
				st.KnownHits[id]++
				continue
			}
			out = append(out, d)
		}
		if len(out) > 0 {
			once.Do(func() {
				saveReplay(&Replay{Property: "C02", Test: "TestC02Contend", Extra: b, Expect: out})
				st.Violations++
			})
			rt.Fatalf("property C02 violated (replay %s):%s", replayPath("C02", "TestC02Contend"), devText(out))
		}
	})
}
