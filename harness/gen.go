package h

import (
	"encoding/json"
	"fmt"
	"os"
	"sort"
	"strings"

	"pgregory.net/rapid"
)

// Profile tunes the history generator for one property.
type Profile struct {
	Ops         map[string]int // op kind -> weight
	Keys        []string
	MaxSteps    int
	MinSteps    int
	CasW        map[string]int // CAS class weights
	ExpW        map[string]int // zero | rel | abs
	SmallDocs   bool           // worlds with a lowered MaxDocSize are generated too
	Exclude     func(op Op, p St, ki *KeyInfo) bool
	Excluded    *int
	BadArgs     int // percent of xattr calls with a deliberately invalid argument
	Reopen      int // weight of close-all+reopen steps (disk worlds only)
	Purge       int
	Stable      int            // weight of "nothing changes without a call" checks
	Sync        int            // weight of feed sync points
	Backfill    int            // weight of dump-feed snapshot checks
	FeedsMax    int            // number of live feeds to start (0..FeedsMax)
	MetaCasW    map[string]int // weights of the *WithMeta CAS classes (default: all of them)
	MultiHandle bool
	FixedKeys   bool // always use defaultKeys (oracles that enumerate them)
	NoBuilders  bool // do not emit state-building operations
	KeepFeeds   bool // the oracle needs the configured feeds (minimisation must not drop them)
	Extra       []ExtraAction
	Prefix      func(rt *rapid.T, r *Run) []Op // steps every history starts with
	Setup       func(r *Run)                   // runs right after the world is created (also in replays)
	Finish      func(r *Run)                   // extra end-of-history checks
	JSONBody    func(rt *rapid.T) []byte       // overrides the generator of JSON bodies
	Config      func(rt *rapid.T, c *Config)   // adjusts the generated world configuration
}

var defaultKeys = []string{"a", "b", "kéy", "c"}

// keyPool: keys a world's key set is drawn from when the profile does not fix one: plain ones plus
// keys with SQL wildcard characters, quotes, spaces, and a long one
var keyPool = []string{"a", "b", "c", "kéy", "a%", "a_b", "q'\"x", "k k", "ab", strings.Repeat("L", 180) + "é"}

func worldKeys(w *World, pr *Profile) []string {
	if len(w.Cfg.Keys) > 0 {
		return w.Cfg.Keys
	}
	if len(pr.Keys) > 0 {
		return pr.Keys
	}
	return defaultKeys
}

var allDocOps = map[string]int{
	"Add": 6, "AddRaw": 4, "Set": 6, "SetRaw": 4, "WriteCas": 12, "Remove": 5, "Delete": 6,
	"Update": 7, "Incr": 3, "Touch": 3, "GetAndTouchRaw": 2,
	"SetXattrs": 5, "UpdateXattrs": 4, "RemoveXattrs": 3, "DeleteSubDocPaths": 2,
	"WriteWithXattrs": 7, "WriteTombstoneWithXattrs": 5, "WriteResurrectionWithXattrs": 4,
	"WriteUpdateWithXattrs": 6, "DeleteWithXattrs": 3, "SetWithMeta": 3, "DeleteWithMeta": 2,
	"WriteSubDoc": 3, "SubdocInsert": 2,
}

var defaultCasW = map[string]int{"current": 45, "zero": 20, "prev": 15, "never": 8, "other": 6, "purged": 6}
var defaultExpW = map[string]int{"zero": 60, "rel": 20, "abs": 20}

func weighted(rt *rapid.T, w map[string]int, label string) string {
	keys := make([]string, 0, len(w))
	total := 0
	for k, v := range w {
		if v > 0 {
			keys = append(keys, k)
			total += v
		}
	}
	// rapid's integer generator favours small values; ordering the alternatives by a per-process
	// hash (VERIF_SEED + shard) lets different shards favour different alternatives
	sort.Slice(keys, func(i, j int) bool {
		hi, hj := fnvString(orderSalt+keys[i]), fnvString(orderSalt+keys[j])
		if hi != hj {
			return hi < hj
		}
		return keys[i] < keys[j]
	})
	n := rapid.IntRange(0, total-1).Draw(rt, label)
	for _, k := range keys {
		n -= w[k]
		if n < 0 {
			return k
		}
	}
	return keys[len(keys)-1]
}

var orderSalt = os.Getenv("VERIF_SEED") + "/" + os.Getenv("VERIF_SHARD_INDEX") + "/"

func pick[T any](rt *rapid.T, xs []T, label string) T {
	return xs[rapid.IntRange(0, len(xs)-1).Draw(rt, label)]
}

func chance(rt *rapid.T, pct int, label string) bool {
	return rapid.IntRange(0, 99).Draw(rt, label) < pct
}

// ---- values ---------------------------------------------------------------------------------

var propNames = []string{"a", "b", "n", "t", "type", "list"}

func genJSONValue(rt *rapid.T, depth int, label string) any {
	k := rapid.IntRange(0, 9).Draw(rt, label+".kind")
	switch {
	case k <= 2:
		return float64(rapid.IntRange(-1000, 100000).Draw(rt, label+".int"))
	case k <= 4:
		return pick(rt, []string{"x", "", "hello", "<&>", "é ", "a.b", "0", "null"}, label+".str")
	case k == 5:
		return rapid.Bool().Draw(rt, label+".bool")
	case k == 6:
		return float64(rapid.IntRange(-50, 50).Draw(rt, label+".dec")) / 4
	case k == 7 && depth > 0:
		n := rapid.IntRange(0, 2).Draw(rt, label+".alen")
		arr := make([]any, n)
		for i := range arr {
			arr[i] = genJSONValue(rt, depth-1, fmt.Sprintf("%s[%d]", label, i))
		}
		return arr
	case k >= 8 && depth > 0:
		return genJSONObject(rt, depth-1, label)
	}
	return "leaf"
}

func genJSONObject(rt *rapid.T, depth int, label string) map[string]any {
	n := rapid.IntRange(0, 4).Draw(rt, label+".nprops")
	m := map[string]any{}
	for i := 0; i < n; i++ {
		name := pick(rt, propNames, label+".pname")
		if chance(rt, 8, label+".null") {
			m[name] = nil // a property that is present with the value null
			continue
		}
		m[name] = genJSONValue(rt, depth, label+"."+name)
	}
	return m
}

func mustJSON(v any) []byte {
	b, err := json.Marshal(v)
	if err != nil {
		panic(err)
	}
	return b
}

// genBody draws a document body. class: "json" (valid JSON, canonical encoding), "obj" (JSON
// object), "raw" (anything).
var jsonBodyOverride func(rt *rapid.T) []byte

func genBody(rt *rapid.T, class string, small bool) []byte {
	if jsonBodyOverride != nil && (class == "obj" || class == "json") {
		return jsonBodyOverride(rt)
	}
	if small && chance(rt, 12, "body.big") {
		n := rapid.IntRange(150, 420).Draw(rt, "body.bigsize")
		return mustJSON(map[string]any{"pad": strings.Repeat("x", n)})
	}
	switch class {
	case "obj":
		return mustJSON(genJSONObject(rt, 2, "body"))
	case "json":
		k := rapid.IntRange(0, 9).Draw(rt, "body.kind")
		switch {
		case k <= 5:
			return mustJSON(genJSONObject(rt, 2, "body"))
		case k == 6:
			return []byte(fmt.Sprint(rapid.IntRange(0, 1000).Draw(rt, "body.num")))
		case k == 7:
			return mustJSON(pick(rt, []string{"s", "", "{x}"}, "body.str"))
		case k == 8:
			return mustJSON([]any{1.0, "two"})
		default:
			// (valid JSON is not always on one line)
			return pick(rt, [][]byte{[]byte("true"), []byte("false"), []byte("0"), []byte("{\n \"k\": 1,\n \"n\": 2\n}"), []byte("{\"type\":\"t1\",\r\n\"k\":\"a\"}\n")}, "body.lit")
		}
	default: // raw
		k := rapid.IntRange(0, 9).Draw(rt, "body.rkind")
		switch {
		case k <= 3:
			if jsonBodyOverride != nil {
				return jsonBodyOverride(rt)
			}
			return mustJSON(genJSONObject(rt, 1, "body"))
		case k == 4:
			return []byte{0, 1, 0xff, 0xfe, 'r', 0}
		case k == 5:
			return []byte("{not json}")
		case k == 6:
			return []byte(fmt.Sprint(rapid.IntRange(0, 1000).Draw(rt, "body.num")))
		case k == 7:
			return []byte("plain text \xc3\x28")
		case k == 8:
			return []byte{}
		default:
			return []byte("{\"a\":1} trailing")
		}
	}
}

func genStartFeed(rt *rapid.T, r *Run) (Op, bool) {
	if len(r.W.Feeds) >= 5 {
		return Op{}, false
	}
	op := Op{K: "StartFeed", C: pickColl(rt, r.W, "sf.coll"), Arg: map[string]any{"keysOnly": chance(rt, 20, "sf.keysonly"), "backfill": chance(rt, 50, "sf.backfill")}}
	if len(r.W.Handles) > 1 {
		op.H = rapid.IntRange(0, len(r.W.Handles)-1).Draw(rt, "sf.h")
	}
	if op.Arg["backfill"] == true && chance(rt, 50, "sf.from") {
		// a start CAS the caller names: what is older is not replayed, what is written from now on is
		// delivered whatever CAS it carries (*WithMeta writes may carry one below the start)
		op.Arg["from"] = pick(rt, []string{"ofkey", "after", "before", "max"}, "sf.fromkind")
		op.Arg["n"] = rapid.IntRange(0, 5).Draw(rt, "sf.n")
	}
	return op, true
}

func genStopFeed(rt *rapid.T, r *Run) (Op, bool) {
	if len(r.W.Feeds) == 0 {
		return Op{}, false
	}
	return Op{K: "StopFeed", Arg: map[string]any{"i": rapid.IntRange(0, len(r.W.Feeds)-1).Draw(rt, "stop.i")}}, true
}

// genXBody: body of a combined body+xattr write: mostly a JSON object (what Sync Gateway writes),
// sometimes another JSON value, bytes that are not JSON, or an empty (non-nil) body - the entry
// points take []byte and store it as it is.
func genXBody(rt *rapid.T, small bool) []byte {
	switch k := rapid.IntRange(0, 19).Draw(rt, "xbody.kind"); {
	case k <= 15 || jsonBodyOverride != nil:
		return genBody(rt, "obj", small)
	case k == 16:
		return genBody(rt, "json", small)
	case k == 17:
		return pick(rt, [][]byte{[]byte("{not json}"), {0, 1, 0xff, 'r'}, []byte("plain")}, "xbody.raw")
	default:
		return []byte{}
	}
}

// ("_sy" is a proper prefix of "_sync": names must be told apart as whole path components)
var sysXattrs = []string{"_sync", "_vv", "_mou", "_sy"}
var userXattrs = []string{"user", "u2"}
var badXattrNames = []string{"a.b", "$doc", "x[0]", "]"}

func genXattrValue(rt *rapid.T, label string, object bool) string {
	if object || chance(rt, 60, label+".isobj") {
		m := genJSONObject(rt, 2, label)
		if chance(rt, 50, label+".nest") {
			m["n"] = map[string]any{"c": "", "d": 1.0}
		}
		if chance(rt, 40, label+".seq") {
			m["seq"] = float64(rapid.IntRange(0, 9).Draw(rt, label+".seqn"))
		}
		return string(mustJSON(m))
	}
	v := genJSONValue(rt, 1, label)
	if chance(rt, 10, label+".null") {
		return "null"
	}
	return string(mustJSON(v))
}

func genXattrName(rt *rapid.T, label string) string {
	if chance(rt, 70, label+".sys") {
		return pick(rt, sysXattrs, label)
	}
	return pick(rt, userXattrs, label)
}

func genXattrSet(rt *rapid.T, min, max int, object bool) map[string]string {
	n := rapid.IntRange(min, max).Draw(rt, "x.n")
	if n == 0 {
		return nil
	}
	m := map[string]string{}
	for i := 0; i < n; i++ {
		name := genXattrName(rt, fmt.Sprintf("x.name%d", i))
		m[name] = genXattrValue(rt, "x."+name, object)
	}
	return m
}

// names to delete: mostly existing ones, sometimes absent ones
func genXattrDel(rt *rapid.T, p St, min, max int) []string {
	n := rapid.IntRange(min, max).Draw(rt, "xdel.n")
	var out []string
	existing := make([]string, 0, len(p.X))
	for k := range p.X {
		existing = append(existing, k)
	}
	sort.Strings(existing)
	for i := 0; i < n; i++ {
		var name string
		if len(existing) > 0 && chance(rt, 80, "xdel.existing") {
			name = pick(rt, existing, "xdel.pick")
		} else {
			name = genXattrName(rt, "xdel.name")
		}
		dup := false
		for _, o := range out {
			if o == name {
				dup = true
			}
		}
		if !dup {
			out = append(out, name)
		}
	}
	return out
}

func genMacros(rt *rapid.T, x map[string]string) []MacroSpec {
	if len(x) == 0 {
		return nil
	}
	names := make([]string, 0, len(x))
	for k := range x {
		names = append(names, k)
	}
	sort.Strings(names)
	n := rapid.IntRange(1, 3).Draw(rt, "macro.n")
	var out []MacroSpec
	for i := 0; i < n; i++ {
		name := pick(rt, names, "macro.xattr")
		sub := pick(rt, []string{"cas", "crc", "n.c", "n.m", "a"}, "macro.sub")
		if chance(rt, 7, "macro.badparent") {
			sub = "nope.deep.x"
		}
		out = append(out, MacroSpec{Path: name + "." + sub, Type: rapid.IntRange(0, 1).Draw(rt, "macro.type")})
	}
	return out
}

func genExp(rt *rapid.T, w map[string]int) ExpSpec {
	if w == nil {
		w = defaultExpW
	}
	switch weighted(rt, w, "exp.kind") {
	case "rel":
		if chance(rt, 12, "exp.30d") {
			return ExpSpec{Kind: "rel", V: 30 * 24 * 3600} // the largest offset: one more would be an absolute time
		}
		return ExpSpec{Kind: "rel", V: uint32(rapid.IntRange(3600, 2000000).Draw(rt, "exp.rel"))}
	case "abs":
		return ExpSpec{Kind: "abs", V: uint32(rapid.IntRange(3600, 90000000).Draw(rt, "exp.abs"))}
	}
	return ExpSpec{Kind: "zero"}
}

func genCas(rt *rapid.T, w map[string]int) CasSpec {
	if w == nil {
		w = defaultCasW
	}
	k := weighted(rt, w, "cas.kind")
	cs := CasSpec{Kind: k}
	if k == "prev" || k == "never" || k == "other" {
		cs.N = rapid.IntRange(0, 3).Draw(rt, "cas.n")
	}
	return cs
}

// ---- world configuration --------------------------------------------------------------------

func genConfig(rt *rapid.T, pr *Profile) Config {
	cfg := Config{}
	cfg.Disk = chance(rt, 35, "cfg.disk")
	cfg.Handles = 1
	if pr.MultiHandle {
		cfg.Handles = rapid.IntRange(1, 3).Draw(rt, "cfg.handles")
	}
	ncoll := rapid.IntRange(1, 3).Draw(rt, "cfg.ncoll")
	cfg.Colls = append([]string{}, allCollNames[:ncoll]...)
	if pr.SmallDocs && chance(rt, 20, "cfg.small") {
		cfg.MaxDocSize = 256
	}
	nf := 0
	if pr.FeedsMax > 0 {
		nf = rapid.IntRange(0, pr.FeedsMax).Draw(rt, "cfg.nfeeds")
	}
	for i := 0; i < nf; i++ {
		fc := FeedCfg{H: rapid.IntRange(0, cfg.Handles-1).Draw(rt, "feed.h"), C: rapid.IntRange(0, ncoll-1).Draw(rt, "feed.c")}
		fc.KeysOnly = chance(rt, 15, "feed.keysonly")
		fc.Multi = ncoll > 1 && chance(rt, 25, "feed.multi")
		cfg.Feeds = append(cfg.Feeds, fc)
	}
	if len(pr.Keys) == 0 && !pr.FixedKeys {
		// 4 keys: two plain ones and two drawn from the pool
		cfg.Keys = []string{"a", "b"}
		for len(cfg.Keys) < 4 {
			k := pick(rt, keyPool, "cfg.key")
			dup := false
			for _, x := range cfg.Keys {
				dup = dup || x == k
			}
			if !dup {
				cfg.Keys = append(cfg.Keys, k)
			}
		}
	}
	if pr.Config != nil {
		pr.Config(rt, &cfg)
	}
	return cfg
}

// ---- operations -----------------------------------------------------------------------------

// (rapid favours small indexes: the rarer classes come first)
var priorClasses = []string{"tombX", "liveX", "tomb", "live", "absent"}

// genTarget picks collection and key, aiming at a drawn prior-state class.
func genTarget(rt *rapid.T, w *World, pr *Profile) (int, string) {
	c, key, _, _ := genTargetAimed(rt, w, pr)
	return c, key
}

func genTargetAimed(rt *rapid.T, w *World, pr *Profile) (c int, key string, want string, found bool) {
	c = pickColl(rt, w, "coll")
	keys := worldKeys(w, pr)
	want = pick(rt, priorClasses, "aim")
	var cands []string
	for _, k := range keys {
		if w.Model.Get(c, k).Class() == want {
			cands = append(cands, k)
		}
	}
	if len(cands) > 0 {
		return c, pick(rt, cands, "key.aimed"), want, true
	}
	return c, pick(rt, keys, "key.any"), want, false
}

// GenOp draws one document operation against the current model state.
func GenOp(rt *rapid.T, w *World, pr *Profile) Op {
	for attempt := 0; ; attempt++ {
		op := genOp1(rt, w, pr)
		if pr.Exclude != nil && attempt < 20 {
			ki := w.Model.Info(op.C, op.Key)
			if pr.Exclude(op, ki.St, ki) {
				if pr.Excluded != nil {
					*pr.Excluded++
				}
				continue
			}
		}
		return op
	}
}

// genBuilder: when no key is in the prior-state class the generator aims at, emit an operation that
// creates such a key (so that later steps find documents with xattrs, tombstones with xattrs, ...).
func genBuilder(rt *rapid.T, w *World, pr *Profile, c int, want string) (Op, bool) {
	keys := worldKeys(w, pr)
	in := func(classes ...string) []string {
		var out []string
		for _, k := range keys {
			cl := w.Model.Get(c, k).Class()
			for _, x := range classes {
				if cl == x {
					out = append(out, k)
				}
			}
		}
		return out
	}
	allowed := func(kind string) bool {
		if pr.Ops == nil {
			return true
		}
		return pr.Ops[kind] > 0
	}
	small := w.Cfg.MaxDocSize > 0
	switch want {
	case "liveX":
		if ks := in("live"); len(ks) > 0 && allowed("SetXattrs") {
			return Op{K: "SetXattrs", C: c, Key: pick(rt, ks, "build.key"), X: genXattrSet(rt, 1, 3, false)}, true
		}
		if ks := in("absent"); len(ks) > 0 && allowed("WriteWithXattrs") {
			return Op{K: "WriteWithXattrs", C: c, Key: pick(rt, ks, "build.key"), Body: genBody(rt, "obj", small), X: genXattrSet(rt, 1, 3, false), Cas: CasSpec{Kind: "zero"}, NilOpts: true}, true
		}
	case "tombX":
		if ks := in("liveX"); len(ks) > 0 {
			k := pick(rt, ks, "build.key")
			switch pick(rt, []string{"Delete", "Update", "WriteCas", "WriteTombstoneWithXattrs", "DeleteWithXattrs"}, "build.del") {
			case "Delete":
				if allowed("Delete") {
					return Op{K: "Delete", C: c, Key: k}, true
				}
			case "Update":
				if allowed("Update") {
					return Op{K: "Update", C: c, Key: k, Cb: "delete"}, true
				}
			case "WriteCas":
				if allowed("WriteCas") {
					return Op{K: "WriteCas", C: c, Key: k, Cas: CasSpec{Kind: "current"}}, true
				}
			case "WriteTombstoneWithXattrs":
				if allowed("WriteTombstoneWithXattrs") {
					return Op{K: "WriteTombstoneWithXattrs", C: c, Key: k, Cas: CasSpec{Kind: "current"}, X: genXattrSet(rt, 1, 2, false), DeleteBody: true, NilOpts: true}, true
				}
			case "DeleteWithXattrs":
				if allowed("DeleteWithXattrs") {
					return Op{K: "DeleteWithXattrs", C: c, Key: k}, true
				}
			}
		}
		if ks := in("tomb"); len(ks) > 0 && allowed("SetXattrs") {
			return Op{K: "SetXattrs", C: c, Key: pick(rt, ks, "build.key"), X: genXattrSet(rt, 1, 2, false)}, true
		}
	case "tomb":
		if ks := in("live"); len(ks) > 0 {
			k := pick(rt, ks, "build.key")
			switch pick(rt, []string{"Delete", "Remove", "Update", "WriteCas"}, "build.del") {
			case "Delete":
				if allowed("Delete") {
					return Op{K: "Delete", C: c, Key: k}, true
				}
			case "Remove":
				if allowed("Remove") {
					return Op{K: "Remove", C: c, Key: k, Cas: CasSpec{Kind: "current"}}, true
				}
			case "Update":
				if allowed("Update") {
					return Op{K: "Update", C: c, Key: k, Cb: "delete"}, true
				}
			case "WriteCas":
				if allowed("WriteCas") {
					return Op{K: "WriteCas", C: c, Key: k, Cas: CasSpec{Kind: "current"}}, true
				}
			}
		}
	case "live":
		if ks := in("absent", "tomb"); len(ks) > 0 && allowed("Set") {
			return Op{K: "Set", C: c, Key: pick(rt, ks, "build.key"), Body: genBody(rt, "json", small), Exp: genExp(rt, pr.ExpW), NilOpts: true}, true
		}
	}
	return Op{}, false
}

func genOp1(rt *rapid.T, w *World, pr *Profile) Op {
	jsonBodyOverride = pr.JSONBody
	defer func() { jsonBodyOverride = nil }()
	ops := pr.Ops
	if ops == nil {
		ops = allDocOps
	}
	kind := weighted(rt, ops, "op")
	c, key, want, found := genTargetAimed(rt, w, pr)
	if !found && !pr.NoBuilders && chance(rt, 70, "build") {
		if bop, ok := genBuilder(rt, w, pr, c, want); ok {
			if len(w.Handles) > 1 {
				bop.H = rapid.IntRange(0, len(w.Handles)-1).Draw(rt, "h")
			}
			return bop
		}
	}
	op := Op{K: kind, C: c, Key: key}
	if len(w.Handles) > 1 {
		op.H = rapid.IntRange(0, len(w.Handles)-1).Draw(rt, "h")
	}
	p := w.Model.Get(c, key)
	small := w.Cfg.MaxDocSize > 0
	bad := pr.BadArgs > 0 && chance(rt, pr.BadArgs, "badarg")
	switch kind {
	case "Add":
		op.Body = genBody(rt, "json", small)
		op.Parsed = chance(rt, 30, "parsed")
		op.Exp = genExp(rt, pr.ExpW)
	case "AddRaw":
		op.Body = genBody(rt, "raw", small)
		op.Exp = genExp(rt, pr.ExpW)
	case "Set":
		op.Body = genBody(rt, "json", small)
		op.Parsed = chance(rt, 30, "parsed")
		op.Exp = genExp(rt, pr.ExpW)
		op.PreserveExp = chance(rt, 30, "preserve")
		op.NilOpts = chance(rt, 30, "nilopts")
	case "SetRaw":
		op.Body = genBody(rt, "raw", small)
		op.Exp = genExp(rt, pr.ExpW)
		op.PreserveExp = chance(rt, 30, "preserve")
		op.NilOpts = chance(rt, 30, "nilopts")
	case "WriteCas":
		op.Cas = genCas(rt, pr.CasW)
		op.Exp = genExp(rt, pr.ExpW)
		mode := weighted(rt, map[string]int{"json": 40, "raw": 15, "addonly": 20, "append": 12, "nil": 13}, "wc.mode")
		switch mode {
		case "json":
			op.Body = genBody(rt, "json", small)
			op.Parsed = chance(rt, 30, "parsed")
		case "raw":
			op.Raw = true
			op.Body = genBody(rt, "raw", small)
		case "addonly":
			op.AddOnly = true
			op.Body = genBody(rt, "json", small)
			op.Raw = chance(rt, 20, "wc.addraw")
			if op.Raw {
				op.Body = genBody(rt, "raw", small)
			}
		case "append":
			op.Append = true
			op.Body = pick(rt, [][]byte{[]byte("+tail"), {0, 'z'}, []byte("}")}, "wc.appendbody")
		case "nil":
			op.Body = nil
		}
	case "Remove":
		op.Cas = genCas(rt, pr.CasW)
	case "Delete":
	case "Touch", "GetAndTouchRaw":
		op.Exp = genExp(rt, pr.ExpW)
	case "Incr":
		op.Amt = uint64(rapid.IntRange(0, 50).Draw(rt, "incr.amt"))
		op.Def = uint64(rapid.IntRange(0, 500).Draw(rt, "incr.def"))
		op.Exp = genExp(rt, pr.ExpW)
	case "Update":
		op.Cb = weighted(rt, map[string]int{"set": 45, "delete": 20, "cancel": 8, "error": 8, "retry": 10, "expOnly": 9}, "upd.cb")
		op.Exp = genExp(rt, pr.ExpW)
		if op.Cb == "set" || op.Cb == "retry" {
			op.Body = genBody(rt, "json", small)
		}
		if op.Cb == "retry" {
			op.Amt = uint64(pick(rt, []int{1, 1, 2, 6, 11}, "upd.retries")) // a loop must go on as long as it is asked to
		}
		if op.Cb == "expOnly" || chance(rt, 25, "upd.cbexp") {
			e := genExp(rt, pr.ExpW)
			op.CbExp = &e
		}
		if op.Cb == "cancel" || op.Cb == "error" {
			op.CbExp = nil
		}
	case "SetXattrs":
		op.X = genXattrSet(rt, 1, 3, false)
		if chance(rt, 20, "sx.nil") {
			op.XNil = genXattrDel(rt, p, 1, 2)
			for _, n := range op.XNil {
				delete(op.X, n)
			}
		}
		if bad {
			genBadXattr(rt, &op)
		}
	case "UpdateXattrs":
		op.X = genXattrSet(rt, 1, 3, false)
		op.Cas = genCas(rt, pr.CasW)
		op.Exp = genExp(rt, pr.ExpW)
		op.PreserveExp = chance(rt, 25, "preserve")
		op.NilOpts = chance(rt, 30, "nilopts")
		if !op.NilOpts && chance(rt, 25, "macros") {
			op.X = genXattrSet(rt, 1, 2, true)
			op.Macros = genMacros(rt, op.X)
		}
		if bad {
			genBadXattr(rt, &op)
		}
	case "RemoveXattrs":
		op.XDel = genXattrDel(rt, p, 1, 2)
		op.Cas = genCas(rt, pr.CasW)
		if bad && chance(rt, 50, "rx.badname") {
			op.XDel = append(op.XDel, pick(rt, badXattrNames, "badname"))
		}
	case "DeleteSubDocPaths":
		op.XDel = genXattrDel(rt, p, 1, 3)
	case "WriteWithXattrs", "WriteTombstoneWithXattrs", "WriteResurrectionWithXattrs":
		op.Cas = genCas(rt, pr.CasW)
		op.Exp = genExp(rt, pr.ExpW)
		op.PreserveExp = chance(rt, 25, "preserve")
		op.NilOpts = chance(rt, 30, "nilopts")
		op.X = genXattrSet(rt, 0, 3, false)
		if kind != "WriteResurrectionWithXattrs" && chance(rt, 35, "wx.del") {
			op.XDel = genXattrDel(rt, p, 1, 2)
			if !bad {
				for _, d := range op.XDel {
					delete(op.X, d)
				}
			}
		}
		if kind == "WriteTombstoneWithXattrs" {
			op.DeleteBody = rapid.Bool().Draw(rt, "wt.deletebody")
			if len(op.X) == 0 && !bad {
				op.X = genXattrSet(rt, 1, 2, false)
			}
		} else if kind == "WriteResurrectionWithXattrs" || chance(rt, 70, "wx.body") {
			op.Body = genXBody(rt, small)
		}
		if kind == "WriteResurrectionWithXattrs" && bad && chance(rt, 30, "wr.nobody") {
			op.Body = nil
		}
		if !op.NilOpts && len(op.X) > 0 && chance(rt, 25, "macros") {
			for k := range op.X {
				op.X[k] = genXattrValue(rt, "x.obj."+k, true)
			}
			op.Macros = genMacros(rt, op.X)
		}
		if bad {
			genBadXattr(rt, &op)
		}
	case "DeleteWithXattrs":
		op.XDel = genXattrDel(rt, p, 0, 2)
	case "WriteUpdateWithXattrs":
		op.Cb = weighted(rt, map[string]int{"set": 75, "error": 10, "retry": 15}, "wu.cb")
		if op.Cb == "retry" {
			op.Amt = uint64(pick(rt, []int{1, 1, 2, 6, 11}, "wu.retries"))
		}
		op.Exp = genExp(rt, pr.ExpW)
		op.Prev = weighted(rt, map[string]int{"": 60, "current": 25, "stale": 15}, "wu.prev")
		op.XKeys = []string{"_sync", "_vv", "_mou", "_sy", "user", "u2"}
		op.PreserveExp = chance(rt, 25, "preserve")
		op.Tomb = chance(rt, 25, "wu.tomb")
		op.X = genXattrSet(rt, 0, 2, false)
		if op.Tomb && len(op.X) == 0 {
			op.X = genXattrSet(rt, 1, 2, false)
		}
		if !op.Tomb && (!p.HasBody() || chance(rt, 70, "wu.body")) {
			op.Body = genXBody(rt, small)
		}
		if chance(rt, 25, "wu.del") {
			op.XDel = genXattrDel(rt, p, 1, 2)
			for _, d := range op.XDel {
				delete(op.X, d)
			}
		}
		if chance(rt, 30, "wu.cbexp") {
			e := genExp(rt, pr.ExpW)
			op.CbExp = &e
			op.CbExpOnce = op.Prev == "stale" && chance(rt, 60, "wu.cbexponce")
		}
		if len(op.X) > 0 && chance(rt, 25, "macros") {
			for k := range op.X {
				op.X[k] = genXattrValue(rt, "x.obj."+k, true)
			}
			op.Macros = genMacros(rt, op.X)
		}
	case "SetWithMeta", "DeleteWithMeta":
		op.Cas = genCas(rt, map[string]int{"current": 60, "zero": 15, "prev": 10, "never": 10, "other": 5})
		op.Exp = pick(rt, []ExpSpec{{Kind: "zero"}, {Kind: "abs", V: 7200}, {Kind: "rel", V: 90000}}, "meta.exp")
		mw := map[string]int{"above": 50, "below": 20, "between": 20, "future": 12, "same": 8, "huge": 5}
		if pr.MetaCasW != nil {
			mw = pr.MetaCasW
		}
		op.MetaCas = weighted(rt, mw, "meta.newcas")
		op.X = genXattrSet(rt, 0, 2, false)
		// the xattr blob of a *WithMeta call is stored as given: some values are valid, compact JSON
		// that a decode / re-encode cycle would not reproduce (integers beyond 2^53, exponents,
		// unsorted keys), to see that a later write naming another xattr leaves them byte-for-byte
		for _, k := range sortedKeys(op.X) {
			if chance(rt, 30, "meta.verbatim") {
				op.X[k] = pick(rt, []string{`{"seq":9007199254740993}`, `{"b":1,"a":2}`, `{"z":{"y":1,"x":[1.0,1e2]}}`, `[18446744073709551615,1.50]`}, "meta.verbatim.v")
			}
		}
		if kind == "SetWithMeta" {
			op.JSON = rapid.Bool().Draw(rt, "meta.json")
			if op.JSON {
				op.Body = genBody(rt, "json", false)
			} else {
				op.Body = genBody(rt, "raw", false)
				if len(op.Body) == 0 {
					op.Body = []byte("r")
				}
			}
		}
	case "WriteSubDoc", "SubdocInsert":
		op.Cas = genCas(rt, map[string]int{"zero": 55, "current": 30, "prev": 8, "never": 7})
		op.Path = genSubdocPath(rt, p)
		if kind == "WriteSubDoc" && chance(rt, 15, "sd.remove") {
			op.Body = nil
		} else {
			v := genJSONValue(rt, 1, "sd.val")
			op.Body = mustJSON(v)
			if kind == "WriteSubDoc" && chance(rt, 5, "sd.trailing") {
				// a valid JSON text followed by something else is not a JSON value
				op.Body = append(op.Body, pick(rt, []string{"]", " 2", `{"y":2}`, ","}, "sd.trail")...)
			}
		}
	default:
		panic("genOp: unknown kind " + kind)
	}
	for _, n := range op.XNil {
		delete(op.X, n) // a nil value wins over a value for the same name
	}
	if op.Parsed && op.Body != nil {
		// a parsed Go value is marshalled by the callee: what is stored is its canonical encoding
		var v any
		if json.Unmarshal(op.Body, &v) == nil {
			op.Body = mustJSON(v)
		}
	}
	return op
}

func genBadXattr(rt *rapid.T, op *Op) {
	switch rapid.IntRange(0, 3).Draw(rt, "bad.kind") {
	case 0:
		if op.X == nil {
			op.X = map[string]string{}
		}
		op.X[pick(rt, badXattrNames, "bad.name")] = `{"v":1}`
	case 1:
		if op.X == nil {
			op.X = map[string]string{}
		}
		op.X[genXattrName(rt, "bad.jsonname")] = pick(rt, []string{`{"unterminated`, `nope`, ``, `{"a":}`}, "bad.json")
	case 2:
		name := genXattrName(rt, "bad.nilname")
		dup := false
		for _, n := range op.XNil {
			dup = dup || n == name
		}
		if !dup {
			op.XNil = append(op.XNil, name)
		}
		for _, n := range op.XNil {
			delete(op.X, n)
		}
	case 3:
		// same xattr in both the set and the delete list
		if len(op.X) > 0 {
			for k := range op.X {
				op.XDel = append(op.XDel, k)
				break
			}
		}
	}
}

// genSubdocPath: mostly paths that make sense for the current document.
func genSubdocPath(rt *rapid.T, p St) string {
	if chance(rt, 6, "sd.badpath") {
		return pick(rt, []string{"", "a[0]", "a\\b", "`a`"}, "sd.bad")
	}
	var doc map[string]any
	if p.HasBody() {
		_ = json.Unmarshal(p.Body, &doc)
	}
	// a path that leads through a property which is there but is not an object (null, number, string,
	// array): the write must be refused, not reported as done
	var scalars []string
	for k, v := range doc {
		if _, isObj := v.(map[string]any); !isObj {
			scalars = append(scalars, k)
		}
	}
	sort.Strings(scalars)
	if len(scalars) > 0 && chance(rt, 12, "sd.through") {
		return pick(rt, scalars, "sd.scalar") + "." + pick(rt, propNames, "sd.leaf")
	}
	if chance(rt, 6, "sd.emptycomp") {
		// an empty path component is a property whose name is the empty string, not something to skip
		n1, n2 := pick(rt, propNames, "sd.e1"), pick(rt, propNames, "sd.e2")
		if len(scalars) > 0 || len(doc) > 0 {
			for k := range doc {
				if k < n1 || n1 == "" {
					n1 = k
				}
			}
		}
		return pick(rt, []string{n1 + ".", n1 + ".." + n2, "." + n1}, "sd.eshape")
	}
	depth := rapid.IntRange(1, 3).Draw(rt, "sd.depth")
	var comps []string
	cur := doc
	for i := 0; i < depth; i++ {
		var names []string
		for k := range cur {
			names = append(names, k)
		}
		sort.Strings(names)
		var name string
		if len(names) > 0 && chance(rt, 65, "sd.existing") {
			name = pick(rt, names, "sd.name")
		} else {
			name = pick(rt, propNames, "sd.newname")
		}
		comps = append(comps, name)
		next, _ := cur[name].(map[string]any)
		cur = next
	}
	return strings.Join(comps, ".")
}

// pickColl draws the index of a collection that currently exists.
func pickColl(rt *rapid.T, w *World, label string) int {
	var live []int
	for i := range w.Cfg.Colls {
		if !w.Model.Colls[i].Dropped {
			live = append(live, i)
		}
	}
	return pick(rt, live, label)
}

func sortedKeys(m map[string]string) []string {
	out := make([]string, 0, len(m))
	for k := range m {
		out = append(out, k)
	}
	sort.Strings(out)
	return out
}
