package h

// C03 — concurrent operations are linearizable, across goroutines and bucket handles.

import (
	"encoding/json"
	"fmt"
	"runtime/debug"
	"sort"
	"strconv"
	"strings"
	"sync"
	"sync/atomic"
	"testing"
	"time"

	"github.com/anishathalye/porcupine"
	sgbucket "github.com/couchbase/sg-bucket"
	"pgregory.net/rapid"
)

type linOp struct {
	K    string `json:"k"` // Get Set Add Delete WriteCas Remove Incr Update SubDoc
	Key  string `json:"key"`
	Body string `json:"body,omitempty"`
	Use  string `json:"use,omitempty"` // WriteCas/Remove: "seen" (the CAS this worker last saw for the key) | "zero"
	H    int    `json:"h,omitempty"`
}

type linPlan struct {
	Disk    bool      `json:"disk"`
	Handles int       `json:"handles"`
	Workers [][]linOp `json:"workers"`
	Seed    int64     `json:"seed"`
}

// what a call is / returned, as seen by the model
type linIn struct {
	K    string
	Body string
	Cas  uint64
	Tag  string
	Prop string
}
type linOut struct {
	OK     bool
	Found  bool
	Body   string
	Cas    uint64
	Num    uint64
	Shown  string // Update: body the callback was shown on its last invocation ("\x00" = nothing)
	X      string // GetX: the _x xattr read ("" = none); UpdateX: the _x the callback was shown
	ErrCls string
}

// per-key sequential specification
type linState struct {
	Row    bool // a row exists (document or tombstone)
	Exists bool // it has a body
	Body   string
	Cas    uint64 // 0 = not known to the checker yet (set by a blind write)
	X      string // value of the system xattr _x ("" = none)
	Exp    uint32 // expiry in force (only tracked in the "touch" mode, where every write states one)
}

// keepX: the xattr a write of a body leaves behind (kept on a live document, gone on resurrection / creation)
func (s linState) keepX() string {
	if s.Exists {
		return s.X
	}
	return ""
}

const nothing = "\x00"

func appendTag(shown, tag string) string {
	var list []string
	if shown != nothing {
		var doc struct {
			L []string `json:"l"`
		}
		_ = json.Unmarshal([]byte(shown), &doc)
		list = doc.L
	}
	list = append(list, tag)
	b, _ := json.Marshal(map[string]any{"l": list})
	return string(b)
}

func setProp(body, prop, val string) string {
	m := map[string]any{}
	if body != nothing {
		_ = json.Unmarshal([]byte(body), &m)
	}
	m[prop] = val
	b, _ := json.Marshal(m)
	return string(b)
}

func linStep(state any, input any, output any) (bool, any) {
	s := state.(linState)
	in := input.(linIn)
	out := output.(linOut)
	casMatches := func(c uint64) (known bool, eq bool) {
		if s.Cas == 0 {
			return false, false
		}
		return true, s.Cas == c
	}
	switch in.K {
	case "Get":
		if out.Found != s.Exists {
			return false, s
		}
		if !out.Found {
			return true, s
		}
		if out.Body != s.Body {
			return false, s
		}
		if s.Cas != 0 && out.Cas != s.Cas {
			return false, s
		}
		s.Cas = out.Cas
		return true, s
	case "Set", "SetPE":
		if !out.OK {
			return false, s
		}
		return true, linState{Row: true, Exists: true, Body: in.Body, X: s.keepX()}
	case "SetExp0":
		// Set with expiry 0: body and "never expires" in one step
		if !out.OK {
			return false, s
		}
		return true, linState{Row: true, Exists: true, Body: in.Body, X: s.keepX(), Exp: 0}
	case "TouchGet":
		// GetAndTouchRaw: returns body + CAS of one version and gives that version the expiry
		if out.Found != s.Exists {
			return false, s
		}
		if !out.Found {
			return true, s
		}
		if out.Body != s.Body || (s.Cas != 0 && out.Cas != s.Cas) {
			return false, s
		}
		s.Cas = out.Cas
		s.Exp = uint32(in.Cas) // (the expiry travels in the input's Cas field)
		return true, s
	case "GetExp":
		if out.Found != s.Exists {
			return false, s
		}
		if out.Found && uint32(out.Num) != s.Exp {
			return false, s
		}
		return true, s
	case "GetX":
		// GetWithXattrs: body, _x and CAS of one version
		if s.Exists {
			if !out.Found || out.Body != s.Body || out.X != s.X {
				return false, s
			}
		} else if out.Found {
			// a tombstone may be reported with its xattrs, never with a body
			if !s.Row || out.Body != nothing || out.X != s.X {
				return false, s
			}
		}
		if out.Found {
			if s.Cas != 0 && out.Cas != s.Cas {
				return false, s
			}
			s.Cas = out.Cas
		}
		return true, s
	case "UpdateX":
		cur := nothing
		if s.Exists {
			cur = s.Body
		}
		if !out.OK {
			return false, s
		}
		if out.Shown != cur || out.X != s.X {
			return false, s // body and xattr shown to the callback are not those of the version it replaced
		}
		nx := nothing
		if s.X != "" {
			nx = s.X
		}
		return true, linState{Row: true, Exists: true, Body: appendTag(cur, in.Tag), X: appendTag(nx, in.Tag), Cas: out.Cas}
	case "Add":
		if out.OK != !s.Exists {
			return false, s
		}
		if out.OK {
			return true, linState{Row: true, Exists: true, Body: in.Body}
		}
		return true, s
	case "Delete":
		if out.OK != s.Row {
			// deleting a tombstone again: either answer (DESIGN 2.2)
			if !(s.Row && !s.Exists) {
				return false, s
			}
		}
		if out.OK {
			return true, linState{Row: true, X: s.X} // system xattrs survive a delete
		}
		return true, s
	case "WriteCas":
		if in.Cas == 0 {
			if out.OK != !s.Exists {
				return false, s
			}
		} else {
			known, eq := casMatches(in.Cas)
			if !s.Row {
				if out.OK {
					return false, s
				}
			} else if known && out.OK != eq {
				return false, s
			}
		}
		if out.OK {
			return true, linState{Row: true, Exists: true, Body: in.Body, Cas: out.Cas, X: s.keepX()}
		}
		return true, s
	case "Purge":
		// (recorded on every key of the plan) a tombstone is gone afterwards, anything else untouched
		if out.OK && s.Row && !s.Exists {
			return true, linState{}
		}
		return true, s
	case "Remove":
		known, eq := casMatches(in.Cas)
		if !s.Row || in.Cas == 0 {
			if out.OK {
				return false, s
			}
			return true, s
		}
		if known && out.OK != eq {
			return false, s
		}
		if out.OK {
			return true, linState{Row: true, Cas: out.Cas, X: s.X}
		}
		return true, s
	case "Incr":
		var want uint64 = 1
		if s.Exists {
			n, err := strconv.ParseUint(s.Body, 10, 64)
			if err != nil {
				return !out.OK, s
			}
			want = n + 1
		}
		if !out.OK || out.Num != want {
			return false, s
		}
		return true, linState{Row: true, Exists: true, Body: strconv.FormatUint(want, 10)}
	case "Update":
		cur := nothing
		if s.Exists {
			cur = s.Body
		}
		if !out.OK {
			return false, s
		}
		if out.Shown != cur {
			return false, s // the stored result was computed from a version that was not the current one
		}
		return true, linState{Row: true, Exists: true, Body: appendTag(cur, in.Tag), Cas: out.Cas, X: s.keepX()}
	case "SubDoc":
		cur := nothing
		if s.Exists {
			cur = s.Body
		}
		if !out.OK {
			return false, s
		}
		return true, linState{Row: true, Exists: true, Body: setProp(cur, in.Prop, in.Tag), Cas: out.Cas, X: s.keepX()}
	}
	return false, s
}

func jsonCanon(s string) string {
	var v any
	if json.Unmarshal([]byte(s), &v) != nil {
		return s
	}
	b, _ := json.Marshal(v)
	return string(b)
}

var linModel = porcupine.Model{
	Init: func() any { return linState{} },
	Step: linStep,
	Equal: func(a, b any) bool {
		return a.(linState) == b.(linState)
	},
	DescribeOperation: func(in, out any) string {
		return fmt.Sprintf("%+v -> %+v", in, out)
	},
}

type linHistory struct {
	ops map[string][]porcupine.Operation // per key
}

// runLinPlan executes the plan once and checks the recorded history.
func runLinPlan(p linPlan) (devs []Deviation, overlapRMW bool, err error) {
	w, err := NewWorld(Config{Disk: p.Disk, Handles: p.Handles, Colls: []string{allCollNames[0]}})
	if err != nil {
		return nil, false, err
	}
	defer w.Close()
	restore := noiseHook(p.Seed, w.Name)
	defer restore()
	var clock int64
	var mu sync.Mutex
	hist := map[string][]porcupine.Operation{}
	record := func(key string, client int, in linIn, call int64, out linOut) {
		ret := atomic.AddInt64(&clock, 1)
		mu.Lock()
		hist[key] = append(hist[key], porcupine.Operation{ClientId: client, Input: in, Call: call, Output: out, Return: ret})
		mu.Unlock()
	}
	var planKeys []string
	{
		seenKeys := map[string]bool{}
		for _, ops := range p.Workers {
			for _, op := range ops {
				if op.Key != "" && !seenKeys[op.Key] {
					seenKeys[op.Key] = true
					planKeys = append(planKeys, op.Key)
				}
			}
		}
		sort.Strings(planKeys)
	}
	var panics []string
	var wg sync.WaitGroup
	for wi, ops := range p.Workers {
		wg.Add(1)
		go func(wi int, ops []linOp) {
			defer wg.Done()
			defer func() {
				if r := recover(); r != nil {
					mu.Lock()
					panics = append(panics, fmt.Sprint(r)+"\n"+string(debug.Stack()))
					mu.Unlock()
				}
			}()
			seen := map[string]uint64{}
			for oi, op := range ops {
				ds := w.Coll(op.H%p.Handles, 0)
				tag := fmt.Sprintf("w%d.%d", wi, oi)
				in := linIn{K: op.K, Body: op.Body, Tag: tag, Prop: fmt.Sprintf("p%d", wi)}
				var out linOut
				call := atomic.AddInt64(&clock, 1)
				switch op.K {
				case "Get":
					raw, cas, e := ds.GetRaw(op.Key)
					if e == nil {
						out = linOut{OK: true, Found: true, Body: jsonCanon(string(raw)), Cas: cas}
						seen[op.Key] = cas
					} else if errClass(e) == "missing" {
						out = linOut{OK: true}
					} else {
						out = linOut{ErrCls: errClass(e)}
					}
				case "Set":
					e := ds.Set(op.Key, 0, nil, []byte(op.Body))
					out = linOut{OK: e == nil, ErrCls: errClass(e)}
				case "SetExp0":
					e := ds.Set(op.Key, 0, nil, []byte(op.Body))
					out = linOut{OK: e == nil, ErrCls: errClass(e)}
				case "TouchGet":
					exp := nowSec() + 7200 + uint32(wi*100+oi) // a different expiry for every call
					in.Cas = uint64(exp)
					raw, cas, e := ds.GetAndTouchRaw(op.Key, exp)
					if e == nil {
						out = linOut{OK: true, Found: true, Body: jsonCanon(string(raw)), Cas: cas}
					} else if errClass(e) == "missing" {
						out = linOut{OK: true}
					} else {
						out = linOut{ErrCls: errClass(e)}
					}
				case "GetExp":
					exp, e := ds.GetExpiry(ctx, op.Key)
					if e == nil {
						out = linOut{OK: true, Found: true, Num: uint64(exp)}
					} else if errClass(e) == "missing" {
						out = linOut{OK: true}
					} else {
						out = linOut{ErrCls: errClass(e)}
					}
				case "SetPE":
					e := ds.Set(op.Key, 0, &sgbucket.UpsertOptions{PreserveExpiry: true}, []byte(op.Body))
					out = linOut{OK: e == nil, ErrCls: errClass(e)}
				case "Add":
					added, e := ds.Add(op.Key, 0, []byte(op.Body))
					out = linOut{OK: added && e == nil, ErrCls: errClass(e)}
				case "Delete":
					e := ds.Delete(op.Key)
					out = linOut{OK: e == nil, ErrCls: errClass(e)}
				case "WriteCas":
					if op.Use == "seen" {
						in.Cas = seen[op.Key]
					}
					cas, e := ds.WriteCas(op.Key, 0, in.Cas, []byte(op.Body), 0)
					out = linOut{OK: e == nil, Cas: cas, ErrCls: errClass(e)}
					if e == nil {
						seen[op.Key] = cas
					}
				case "Purge":
					_, e := w.Handles[op.H%p.Handles].PurgeTombstones()
					out = linOut{OK: e == nil, ErrCls: errClass(e)}
					for _, k := range planKeys {
						record(k, wi, in, call, out)
					}
					continue
				case "Remove":
					in.Cas = seen[op.Key]
					cas, e := ds.Remove(op.Key, in.Cas)
					out = linOut{OK: e == nil, Cas: cas, ErrCls: errClass(e)}
				case "Incr":
					n, e := ds.Incr(op.Key, 1, 1, 0)
					out = linOut{OK: e == nil, Num: n, ErrCls: errClass(e)}
				case "Update":
					shown := nothing
					cas, e := ds.Update(op.Key, 0, func(current []byte) ([]byte, *uint32, bool, error) {
						shown = nothing
						if current != nil {
							shown = jsonCanon(string(current))
						}
						return []byte(appendTag(shown, tag)), nil, false, nil
					})
					out = linOut{OK: e == nil, Cas: cas, Shown: shown, ErrCls: errClass(e)}
				case "GetX":
					raw, xs, cas, e := ds.GetWithXattrs(ctx, op.Key, []string{"_x"})
					if e == nil {
						out = linOut{OK: true, Found: true, Body: nothing, Cas: cas}
						if raw != nil {
							out.Body = jsonCanon(string(raw))
						}
						if x, ok := xs["_x"]; ok {
							out.X = jsonCanon(string(x))
						}
						seen[op.Key] = cas
					} else if errClass(e) == "missing" {
						out = linOut{OK: true}
					} else {
						out = linOut{ErrCls: errClass(e)}
					}
				case "UpdateX":
					shown, shownX := nothing, ""
					cas, e := ds.WriteUpdateWithXattrs(ctx, op.Key, []string{"_x"}, 0, nil, nil, func(doc []byte, xattrs map[string][]byte, _ uint64) (sgbucket.UpdatedDoc, error) {
						shown, shownX = nothing, ""
						if doc != nil {
							shown = jsonCanon(string(doc))
						}
						nx := nothing
						if x, ok := xattrs["_x"]; ok {
							shownX = jsonCanon(string(x))
							nx = shownX
						}
						return sgbucket.UpdatedDoc{Doc: []byte(appendTag(shown, tag)), Xattrs: map[string][]byte{"_x": []byte(appendTag(nx, tag))}}, nil
					})
					out = linOut{OK: e == nil, Cas: cas, Shown: shown, X: shownX, ErrCls: errClass(e)}
				case "SubDoc":
					cas, e := ds.WriteSubDoc(ctx, op.Key, in.Prop, 0, []byte(strconv.Quote(tag)))
					out = linOut{OK: e == nil, Cas: cas, ErrCls: errClass(e)}
				}
				in.Body = jsonCanon(in.Body)
				record(op.Key, wi, in, call, out)
			}
		}(wi, ops)
	}
	wg.Wait()
	restore()
	c03 := []string{"C03"}
	for _, pn := range panics {
		devs = append(devs, Deviation{Clause: "lin.panic", Props: []string{"C03", "C20"}, Sig: "lin.panic", Msg: "worker panicked: " + pn})
	}
	keys := make([]string, 0, len(hist))
	for k := range hist {
		keys = append(keys, k)
	}
	sort.Strings(keys)
	for _, k := range keys {
		ops := hist[k]
		// unexpected error classes are violations by themselves
		for _, o := range ops {
			out := o.Output.(linOut)
			in := o.Input.(linIn)
			switch out.ErrCls {
			case "", "missing", "cas", "exists":
			default:
				devs = append(devs, Deviation{Clause: "lin.err", Props: c03, Sig: "lin.err|" + in.K, Msg: fmt.Sprintf("%s on %q failed with an unexpected error class %q under concurrency", in.K, k, out.ErrCls)})
			}
		}
		// real-time overlap of a read-modify-write with another operation on the same key?
		for i, a := range ops {
			ka := a.Input.(linIn).K
			if ka != "Incr" && ka != "Update" && ka != "SubDoc" && ka != "WriteCas" && ka != "UpdateX" && ka != "TouchGet" {
				continue
			}
			for j, b := range ops {
				if i != j && a.ClientId != b.ClientId && a.Call < b.Return && b.Call < a.Return {
					overlapRMW = true
				}
			}
		}
		res, _ := porcupine.CheckOperationsVerbose(linModel, ops, 10*time.Second)
		switch res {
		case porcupine.Illegal:
			var lines []string
			sorted := append([]porcupine.Operation(nil), ops...)
			sort.Slice(sorted, func(i, j int) bool { return sorted[i].Call < sorted[j].Call })
			for _, o := range sorted {
				lines = append(lines, fmt.Sprintf("  [%d..%d] w%d %s", o.Call, o.Return, o.ClientId, linModel.DescribeOperation(o.Input, o.Output)))
			}
			if len(lines) > 40 {
				lines = append(lines[:40], "  ...")
			}
			devs = append(devs, Deviation{Clause: "lin.illegal", Props: c03, Sig: "lin.illegal", Msg: fmt.Sprintf("the history of key %q (%d operations by %d workers) has no linearization:\n%s", k, len(ops), len(p.Workers), strings.Join(lines, "\n"))})
		case porcupine.Unknown:
			devs = append(devs, Deviation{Clause: "lin.unknown", Props: []string{"inconclusive"}, Msg: "porcupine timed out"})
		}
	}
	// algebraic end-state invariants
	ds := w.Coll(0, 0)
	for _, k := range keys {
		incr, upd := 0, []string{}
		var updX []string
		xOnlyByUpdateX := true // no operation other than UpdateX can change _x except resurrection (needs a Delete)
		onlyIncr, onlyUpd := true, true
		for _, o := range hist[k] {
			in, out := o.Input.(linIn), o.Output.(linOut)
			switch in.K {
			case "Incr":
				if out.OK {
					incr++
				}
				onlyUpd = false
			case "Update":
				if out.OK {
					upd = append(upd, in.Tag)
				}
				onlyIncr = false
			case "UpdateX":
				if out.OK {
					updX = append(updX, in.Tag)
				}
				onlyIncr, onlyUpd = false, false
			case "Get", "GetX", "Purge": // (a purge touches tombstones only)
			case "Delete", "Remove":
				xOnlyByUpdateX = false
				onlyIncr, onlyUpd = false, false
			default:
				onlyIncr, onlyUpd = false, false
			}
		}
		if xOnlyByUpdateX && len(updX) > 0 {
			_, xs, _, xe := ds.GetWithXattrs(ctx, k, []string{"_x"})
			var doc struct {
				L []string `json:"l"`
			}
			_ = json.Unmarshal(xs["_x"], &doc)
			got := append([]string(nil), doc.L...)
			sort.Strings(got)
			sort.Strings(updX)
			if xe != nil || strings.Join(got, ",") != strings.Join(updX, ",") {
				devs = append(devs, Deviation{Clause: "lin.lostxupdate", Props: c03, Sig: "lin.lostxupdate", Msg: fmt.Sprintf("WriteUpdateWithXattrs calls %v succeeded on %q but the final _x list is %v (err %v): an update was lost or duplicated", updX, k, doc.L, xe)})
			}
		}
		raw, _, e := ds.GetRaw(k)
		if onlyIncr && incr > 0 {
			if e != nil || string(raw) != strconv.Itoa(incr) {
				devs = append(devs, Deviation{Clause: "lin.counter", Props: c03, Sig: "lin.counter", Msg: fmt.Sprintf("%d successful Incr(+1, default 1) calls on %q ended with value %q (err %v): an increment was lost", incr, k, raw, e)})
			}
		}
		if onlyUpd && len(upd) > 0 {
			var doc struct {
				L []string `json:"l"`
			}
			_ = json.Unmarshal(raw, &doc)
			got := append([]string(nil), doc.L...)
			sort.Strings(got)
			sort.Strings(upd)
			if strings.Join(got, ",") != strings.Join(upd, ",") {
				devs = append(devs, Deviation{Clause: "lin.lostupdate", Props: c03, Sig: "lin.lostupdate", Msg: fmt.Sprintf("Update calls %v succeeded on %q but the final list is %v: an update was lost or duplicated", upd, k, doc.L)})
			}
		}
	}
	return
}

func genLinPlan(rt *rapid.T) linPlan {
	p := linPlan{Disk: chance(rt, 40, "disk"), Handles: rapid.IntRange(1, 3).Draw(rt, "handles"), Seed: int64(rapid.IntRange(1, 1<<30).Draw(rt, "seed"))}
	nw := rapid.IntRange(2, 6).Draw(rt, "workers")
	mode := pick(rt, []string{"mixed", "mixed", "counter", "list", "subdoc", "xlist", "mixedx", "touch"}, "mode")
	for wi := 0; wi < nw; wi++ {
		n := rapid.IntRange(3, 20).Draw(rt, "nops")
		var ops []linOp
		for i := 0; i < n; i++ {
			op := linOp{H: rapid.IntRange(0, p.Handles-1).Draw(rt, "h")}
			switch mode {
			case "counter":
				// (a deleted counter starts again at its default: creating it twice at once must not lose one)
				op.K, op.Key = pick(rt, []string{"Incr", "Incr", "Incr", "Incr", "Get", "Delete", "Delete", "Purge"}, "k"), "ctr"
			case "list":
				op.K, op.Key = pick(rt, []string{"Update", "Update", "Get"}, "k"), "list"
			case "subdoc":
				op.K, op.Key = pick(rt, []string{"SubDoc", "SubDoc", "Get", "Update"}, "k"), "doc"
			case "touch":
				// reads that also write an expiry, next to writes that clear it: body, CAS and expiry
				// of one version belong together
				op.K, op.Key = pick(rt, []string{"TouchGet", "TouchGet", "SetExp0", "SetExp0", "GetExp", "Get"}, "k"), "t"
			case "xlist":
				op.K, op.Key = pick(rt, []string{"UpdateX", "UpdateX", "UpdateX", "GetX", "Set", "SetPE", "Update"}, "k"), "xdoc"
			case "mixedx":
				op.Key = pick(rt, []string{"a", "b"}, "key")
				op.K = pick(rt, []string{"GetX", "GetX", "Get", "Set", "Add", "Delete", "WriteCas", "Remove", "Update", "UpdateX", "UpdateX", "SubDoc"}, "k")
			default:
				op.Key = pick(rt, []string{"a", "b"}, "key")
				op.K = pick(rt, []string{"Get", "Get", "Set", "SetPE", "Add", "Add", "Delete", "Delete", "WriteCas", "WriteCas", "Remove", "Update", "SubDoc", "Purge"}, "k")
			}
			switch op.K {
			case "Set", "SetPE", "SetExp0", "Add", "WriteCas":
				op.Body = fmt.Sprintf(`{"l":["s%d.%d"]}`, wi, i)
				op.Use = pick(rt, []string{"seen", "seen", "zero"}, "use")
			}
			ops = append(ops, op)
		}
		p.Workers = append(p.Workers, ops)
	}
	return p
}

func TestC03(t *testing.T) {
	st := statsFor("C03", "TestC03")
	st.Rule = "generated plans of 2-6 goroutines x 3-20 operations (Get, Set, Add, Delete, WriteCas with the CAS the goroutine last saw or 0, Remove, Incr, Update appending the caller's tag to a list, WriteSubDoc of a per-goroutine property, GetWithXattrs, WriteUpdateWithXattrs appending the tag to the body list and to a list in the system xattr _x) on 1-2 shared keys through 1-3 handles of one memory or disk bucket, free-running with seeded scheduling noise at the verif hook points; invocation/response ticks and results are recorded and porcupine searches a linearization of each key's history against a sequential per-key specification (CAS values bound lazily); plus end-state invariants (counter = number of successful Incr, every successful Update / WriteUpdateWithXattrs tag exactly once); non-trivial = a read-modify-write overlapped another goroutine's operation on the same key in real time; distinct by plan"
	judge := func(devs []Deviation) (out []Deviation, inconclusive int) {
		for _, d := range devs {
			if d.Has("inconclusive") {
				inconclusive++
				continue
			}
			if !d.Has("C03") {
				continue
			}
			if id, ok := tolerated("C03", d); ok {
				st.KnownHits[id]++
				continue
			}
			out = append(out, d)
		}
		return
	}
	if replayMode() {
		rp := loadReplay("TestC03")
		if rp == nil {
			t.Skip("replay file is for another test")
		}
		var p linPlan
		if err := json.Unmarshal(rp.Extra, &p); err != nil {
			t.Fatal(err)
		}
		for i := 0; i < 40; i++ { // schedules are not reproducible: run the plan repeatedly
			p.Seed += int64(i)
			devs, _, err := runLinPlan(p)
			if err != nil {
				t.Fatalf("infrastructure: %v", err)
			}
			if ds, _ := judge(devs); len(ds) > 0 {
				t.Fatalf("property C03 violated by replay (attempt %d):%s", i, devText(ds))
			}
		}
		st.Case(1, true, func() any { return p })
		return
	}
	var once sync.Once
	rapid.Check(t, func(rt *rapid.T) {
		p := genLinPlan(rt)
		devs, overlap, err := runLinPlan(p)
		if err != nil {
			rt.Fatalf("INFRA: %v", err)
		}
		b, _ := json.Marshal(p)
		st.Case(fnvString(string(b)), overlap, func() any { return p })
		st.Label("world", fmt.Sprintf("disk=%v handles=%d workers=%d", p.Disk, p.Handles, len(p.Workers)))
		ds, inc := judge(devs)
		st.mu.Lock()
		st.Inconclusive += inc
		st.mu.Unlock()
		if len(ds) > 0 {
			once.Do(func() {
				saveReplay(&Replay{Property: "C03", Test: "TestC03", Extra: b, Expect: ds})
				st.Violations++
			})
			rt.Fatalf("property C03 violated (replay %s):%s", replayPath("C03", "TestC03"), devText(ds))
		}
	})
}

var _ = sgbucket.Raw
