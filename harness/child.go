package h

// Child processes: the test binary re-executes itself to run a history against an on-disk bucket,
// acknowledging every completed call on stdout, optionally killing itself (SIGKILL) at the n-th
// occurrence of a verif hook point. The parent never opened that bucket, so when it opens the
// directory afterwards it is "a later open in a fresh process" in the sense of C10 / C04.

import (
	"bufio"
	"bytes"
	"encoding/json"
	"fmt"
	"os"
	"os/exec"
	"sort"
	"strings"
	"sync"
	"syscall"
	"time"

	sgbucket "github.com/couchbase/sg-bucket"
	"github.com/couchbaselabs/rosmar"
)

type CrashPoint struct {
	Hook string `json:"hook"`
	Nth  int    `json:"nth"`
}

type ClockPlan struct {
	BaseNs  uint64  `json:"base"`    // first reading
	Offsets []int64 `json:"offsets"` // reading i = base + offsets[i % len] (ns)
}

type ChildPlan struct {
	Dir      string      `json:"dir"`
	Name     string      `json:"name"`
	Config   Config      `json:"config"`
	Existing bool        `json:"existing"`
	Steps    []Op        `json:"steps"`
	Crash    *CrashPoint `json:"crash,omitempty"`
	Count    bool        `json:"count,omitempty"`
	// ScanKeys: before the first step, read these <collection index, key> pairs and report the CAS of
	// every document or tombstone found (in the READY line): what an earlier process left on disk
	ScanKeys    [][2]string                            `json:"scanKeys,omitempty"`
	Clock       *ClockPlan                             `json:"clock,omitempty"`
	Model       *Model                                 `json:"model,omitempty"`
	DDocs       map[int]map[string]map[string]ViewSpec `json:"ddocs,omitempty"`
	NoClose     bool                                   `json:"noClose,omitempty"`     // exit without closing the bucket
	KeepIndexed bool                                   `json:"keepIndexed,omitempty"` // query every known view (stale=false) after each step
}

type Ack struct {
	I     int                                    `json:"i"`
	Model *Model                                 `json:"model"`
	DDocs map[int]map[string]map[string]ViewSpec `json:"ddocs,omitempty"`
	Cas   []uint64                               `json:"cas,omitempty"` // every CAS the step handed out
	Devs  []Deviation                            `json:"devs,omitempty"`
	UUID  string                                 `json:"uuid,omitempty"`
	// Count mode: how often each hook had been reached when the step began / when its call returned
	HooksBefore map[string]int `json:"hooksBefore,omitempty"`
	HooksAfter  map[string]int `json:"hooksAfter,omitempty"`
}

func emit(kind string, v any) {
	b, _ := json.Marshal(v)
	line := append([]byte(kind+" "), b...)
	line = append(line, '\n')
	_, _ = os.Stdout.Write(line) // one write(2) per line, unbuffered
}

// ChildMain is what the re-executed binary runs (from TestChildMain).
func ChildMain(planPath string) {
	raw, err := os.ReadFile(planPath)
	if err != nil {
		fmt.Fprintln(os.Stderr, "child: cannot read plan:", err)
		os.Exit(3)
	}
	var plan ChildPlan
	if err := json.Unmarshal(raw, &plan); err != nil {
		fmt.Fprintln(os.Stderr, "child: bad plan:", err)
		os.Exit(3)
	}
	counts := map[string]int{}
	var mu sync.Mutex
	rosmar.VerifSetHook(func(name, tag string) {
		mu.Lock()
		counts[name]++
		n := counts[name]
		mu.Unlock()
		if plan.Crash != nil && plan.Crash.Hook == name && plan.Crash.Nth == n {
			_ = syscall.Kill(os.Getpid(), syscall.SIGKILL)
			select {} // never continue past the crash point
		}
	})
	if plan.Clock != nil {
		var i int
		var cmu sync.Mutex
		rosmar.VerifSetGlobalClock(func() uint64 {
			cmu.Lock()
			defer cmu.Unlock()
			off := plan.Clock.Offsets[i%len(plan.Clock.Offsets)]
			i++
			return uint64(int64(plan.Clock.BaseNs) + off)
		})
	}
	w, err := NewWorldAt(plan.Config, plan.Dir, plan.Name, plan.Existing)
	if err != nil {
		fmt.Fprintln(os.Stderr, "child: cannot open world:", err)
		os.Exit(3)
	}
	if plan.Model != nil {
		w.Model = plan.Model
		fixModel(w.Model)
	}
	run := NewRun(w, "child")
	run.DDocs = plan.DDocs
	uuid, _ := w.Handles[0].UUID()
	ready := Ack{I: -1, UUID: uuid, Model: w.Model}
	for _, ck := range plan.ScanKeys {
		ci := 0
		fmt.Sscanf(ck[0], "%d", &ci)
		if ci < 0 || ci >= len(w.Cfg.Colls) {
			continue
		}
		if st, _ := Observe(w.Coll(0, ci), ck[1], nil); st.Present {
			ready.Cas = append(ready.Cas, st.Cas)
		}
	}
	emit("READY", ready)
	for i, op := range plan.Steps {
		before := len(run.Devs)
		casBefore := w.Model.MaxIssued
		snap := func() map[string]int {
			if !plan.Count {
				return nil
			}
			mu.Lock()
			defer mu.Unlock()
			m := make(map[string]int, len(counts))
			for k, v := range counts {
				m[k] = v
			}
			return m
		}
		hooksBefore := snap()
		run.Do(op)
		ack := Ack{I: i, Model: w.Model, DDocs: run.DDocs, Devs: run.Devs[before:], HooksBefore: hooksBefore, HooksAfter: snap()}
		if w.Model.MaxIssued != casBefore {
			ack.Cas = []uint64{w.Model.MaxIssued}
		}
		emit("ACK", ack)
		if plan.KeepIndexed {
			// keep every index up to date, so that a later "document without high-water mark"
			// cannot be repaired by the next incremental update
			for ci := range w.Cfg.Colls {
				if w.Model.Colls[ci].Dropped {
					continue
				}
				for dd, views := range run.ddocs(ci) {
					for v := range views {
						_, _ = w.Coll(0, ci).(sgbucket.ViewStore).View(ctx, dd, v, map[string]any{"stale": false, "reduce": false})
					}
				}
			}
		}
	}
	if plan.Count {
		mu.Lock()
		emit("COUNTS", counts)
		mu.Unlock()
	}
	if !plan.NoClose {
		for _, f := range w.Feeds {
			f.Stop()
		}
		for _, b := range w.Handles {
			b.Close(ctx)
		}
	}
	emit("DONE", map[string]any{})
	os.Exit(0)
}

// fixModel restores the nil maps JSON leaves behind.
func fixModel(m *Model) {
	if m.AllCas == nil {
		m.AllCas = map[uint64]bool{}
	}
	for _, cm := range m.Colls {
		if cm.Docs == nil {
			cm.Docs = map[string]*KeyInfo{}
		}
		for _, ki := range cm.Docs {
			if ki.XNames == nil {
				ki.XNames = map[string]bool{}
			}
			if ki.Writers == nil {
				ki.Writers = map[string]bool{}
			}
			if ki.Deletes == nil {
				ki.Deletes = map[string]bool{}
			}
			if ki.Resurrects == nil {
				ki.Resurrects = map[string]bool{}
			}
		}
	}
}

// ChildResult is what the parent learns from a child run.
type ChildResult struct {
	Ready    *Ack
	Acks     []Ack
	Counts   map[string]int
	Done     bool
	Killed   bool
	ExitErr  string
	Stderr   string
	Duration time.Duration
}

// RunChild re-executes the test binary with the plan and collects its acknowledgements.
func RunChild(plan *ChildPlan, timeout time.Duration) (*ChildResult, error) {
	f, err := os.CreateTemp(tmpRoot(), "plan*.json")
	if err != nil {
		return nil, err
	}
	defer os.Remove(f.Name())
	b, _ := json.Marshal(plan)
	if _, err := f.Write(b); err != nil {
		return nil, err
	}
	f.Close()
	cmd := exec.Command(os.Args[0], "-test.run=^TestChildMain$", "-test.count=1", "-test.timeout=120s")
	cmd.Env = append(os.Environ(), "VERIF_CHILD_PLAN="+f.Name(), "VERIF_STATS=", "VERIF_REPLAY=")
	var stderr bytes.Buffer
	cmd.Stderr = &stderr
	out, err := cmd.StdoutPipe()
	if err != nil {
		return nil, err
	}
	start := time.Now()
	if err := cmd.Start(); err != nil {
		return nil, err
	}
	res := &ChildResult{}
	done := make(chan struct{})
	go func() {
		defer close(done)
		sc := bufio.NewScanner(out)
		sc.Buffer(make([]byte, 1<<20), 64<<20)
		for sc.Scan() {
			line := sc.Text()
			sp := strings.IndexByte(line, ' ')
			if sp < 0 {
				continue
			}
			kind, payload := line[:sp], []byte(line[sp+1:])
			switch kind {
			case "READY":
				var a Ack
				if json.Unmarshal(payload, &a) == nil {
					res.Ready = &a
				}
			case "ACK":
				var a Ack
				if json.Unmarshal(payload, &a) == nil {
					res.Acks = append(res.Acks, a)
				}
			case "COUNTS":
				_ = json.Unmarshal(payload, &res.Counts)
			case "DONE":
				res.Done = true
			}
		}
	}()
	timer := time.AfterFunc(timeout, func() { _ = cmd.Process.Signal(syscall.SIGQUIT) })
	<-done
	werr := cmd.Wait()
	timer.Stop()
	res.Duration = time.Since(start)
	res.Stderr = stderr.String()
	if werr != nil {
		res.ExitErr = werr.Error()
		if ee, ok := werr.(*exec.ExitError); ok {
			if ws, ok := ee.Sys().(syscall.WaitStatus); ok && ws.Signaled() && ws.Signal() == syscall.SIGKILL {
				res.Killed = true
			}
		}
	}
	return res, nil
}

// hookPoints: sorted list of (hook, occurrence) pairs from a dry run's counts.
func hookPoints(counts map[string]int, hooks []string) []CrashPoint {
	var out []CrashPoint
	names := make([]string, 0, len(counts))
	for n := range counts {
		names = append(names, n)
	}
	sort.Strings(names)
	for _, n := range names {
		ok := len(hooks) == 0
		for _, h := range hooks {
			if h == n {
				ok = true
			}
		}
		if !ok {
			continue
		}
		for i := 1; i <= counts[n]; i++ {
			out = append(out, CrashPoint{Hook: n, Nth: i})
		}
	}
	return out
}
