package h

import (
	"encoding/json"
	"fmt"
	"sort"
	"strings"
	"testing"

	"pgregory.net/rapid"
)

// Sequential-history properties that share the engine: each test tunes the generator towards the
// region its property is about and states its own non-triviality rule. A check reports only the
// oracle clauses tagged with its own property (engine.go propsOf / feeds.go).

func keyID(tr StepTrace) string { return fmt.Sprintf("%d/%s", tr.Op.C, tr.Op.Key) }

func isDocOp(tr StepTrace) bool { return tr.Op.Key != "" }

func scale(m map[string]int, f map[string]int) map[string]int {
	out := map[string]int{}
	for k, v := range m {
		out[k] = v
	}
	for k, v := range f {
		out[k] = v
	}
	return out
}

// C02 (a) — CAS-conditional writes succeed iff the CAS is current (sequential part).
func TestC02Seq(t *testing.T) {
	pr := &Profile{
		Ops: scale(allDocOps, map[string]int{"WriteCas": 22, "Remove": 10, "WriteWithXattrs": 12, "WriteTombstoneWithXattrs": 9,
			"UpdateXattrs": 9, "RemoveXattrs": 7, "SetWithMeta": 7, "DeleteWithMeta": 5, "WriteSubDoc": 7, "SubdocInsert": 5,
			"Add": 3, "Set": 4, "Delete": 5, "Update": 3, "Incr": 1, "Touch": 1, "GetAndTouchRaw": 1, "AddRaw": 1, "SetRaw": 2}),
		CasW:        map[string]int{"current": 35, "zero": 17, "prev": 20, "never": 10, "other": 8, "purged": 10},
		MultiHandle: true, Purge: 2, Reopen: 1,
	}
	seqProperty(t, "C02", "TestC02Seq", pr, 1500,
		"rapid histories weighted to conditional entry points with every CAS class; non-trivial = a conditional write with a non-current CAS (stale / never issued / other key's / purged incarnation's / zero) hits a document in a non-fresh state (tombstone, resurrected, xattr-only, or rewritten at least twice), and the history also contains a conditional write with the current CAS; distinct by <op, prior class, CAS class, outcome> sequence",
		func(r *Run) bool {
			writes := map[string]int{}
			nonCurrent, current := false, false
			for _, tr := range r.Trace {
				if !isDocOp(tr) {
					continue
				}
				f := family(tr.Op)
				if f.cond {
					fresh := writes[keyID(tr)] < 2 && (tr.Prior == "live" || tr.Prior == "absent")
					if tr.Cas != "current" && !fresh {
						nonCurrent = true
					}
					if tr.Cas == "current" {
						current = true
					}
				}
				if tr.Err == "" {
					writes[keyID(tr)]++
				}
			}
			return nonCurrent && current
		})
}

// C05 — tombstone coherence.
func TestC05(t *testing.T) {
	pr := &Profile{
		Ops: scale(allDocOps, map[string]int{"Delete": 12, "Remove": 8, "Update": 10, "DeleteWithXattrs": 8, "WriteTombstoneWithXattrs": 10,
			"DeleteWithMeta": 5, "SetXattrs": 6, "UpdateXattrs": 5, "RemoveXattrs": 3, "Add": 9, "AddRaw": 5, "WriteCas": 14,
			"WriteResurrectionWithXattrs": 7, "WriteSubDoc": 3, "Incr": 3, "Touch": 1, "GetAndTouchRaw": 1, "SubdocInsert": 1}),
		Keys:        []string{"a", "b", "c"},
		MultiHandle: true, Purge: 1, Reopen: 1, Backfill: 3, Sync: 2, FeedsMax: 2,
	}
	seqProperty(t, "C05", "TestC05", pr, 1500,
		"rapid histories weighted to delete / resurrect / xattr-on-tombstone / purge paths, observed through reads, live feed events, dump-feed backfills and follow-up insert-style writes; non-trivial = some key lost its body at least twice through at least two different delete paths and regained it through at least two different resurrect paths; distinct by <op, prior class, CAS class, outcome> sequence",
		func(r *Run) bool {
			for _, cm := range r.W.Model.Colls {
				for _, ki := range cm.Docs {
					if len(ki.Deletes) >= 2 && len(ki.Resurrects) >= 2 {
						return true
					}
				}
			}
			return false
		})
}

// C06 — insert-only writes.
func TestC06(t *testing.T) {
	pr := &Profile{
		Ops: scale(allDocOps, map[string]int{"Add": 16, "AddRaw": 10, "WriteCas": 22, "WriteResurrectionWithXattrs": 12, "WriteWithXattrs": 12,
			"Delete": 9, "Remove": 5, "Update": 8, "DeleteWithXattrs": 6, "WriteTombstoneWithXattrs": 7, "DeleteWithMeta": 4}),
		CasW:        map[string]int{"zero": 45, "current": 25, "prev": 12, "never": 8, "other": 4, "purged": 6},
		Keys:        []string{"a", "b", "c"},
		MultiHandle: true, Purge: 3, Reopen: 1, Sync: 1, FeedsMax: 1,
	}
	seqProperty(t, "C06", "TestC06", pr, 1500,
		"rapid histories weighted to insert-style entry points (Add, AddRaw, WriteCas cas=0 / AddOnly, WriteResurrectionWithXattrs, WriteWithXattrs cas=0) after delete/re-create cycles through other entry points; non-trivial = an insert is attempted on a key whose last writer was a different entry point, and the history contains both an accepted and a refused insert; distinct by <op, prior class, CAS class, outcome> sequence",
		func(r *Run) bool {
			last := map[string]string{}
			cross, accepted, refused := false, false, false
			for _, tr := range r.Trace {
				if !isDocOp(tr) {
					continue
				}
				if family(tr.Op).insert {
					if lw, ok := last[keyID(tr)]; ok && lw != tr.Op.K {
						cross = true
					}
					if tr.Outcome == "refused" || tr.Outcome == "insert-refused" || tr.Outcome == "exists" || tr.Outcome == "body-on-tombstone" {
						refused = true
					} else if tr.Err == "" {
						accepted = true
					}
				}
				if tr.Err == "" && tr.Outcome != "refused" {
					last[keyID(tr)] = tr.Op.K
				}
			}
			return cross && accepted && refused
		})
}

// C07 — body/xattr independence, all-or-nothing, macros.
func TestC07(t *testing.T) {
	pr := &Profile{
		Ops: scale(allDocOps, map[string]int{"SetXattrs": 12, "UpdateXattrs": 12, "RemoveXattrs": 8, "DeleteSubDocPaths": 6, "WriteWithXattrs": 16,
			"WriteTombstoneWithXattrs": 8, "WriteResurrectionWithXattrs": 7, "WriteUpdateWithXattrs": 14, "DeleteWithXattrs": 5,
			"Set": 7, "SetRaw": 3, "WriteCas": 8, "Update": 5, "Incr": 2, "WriteSubDoc": 3, "Touch": 2}),
		CasW:      map[string]int{"current": 60, "zero": 15, "prev": 12, "never": 6, "other": 3, "purged": 4},
		Keys:      []string{"a", "b", "c"},
		SmallDocs: true, BadArgs: 15, MultiHandle: true, Purge: 1, Reopen: 1, Sync: 1, FeedsMax: 1,
	}
	seqProperty(t, "C07", "TestC07", pr, 1500,
		"rapid histories weighted to the xattr entry points with generated subsets to set/delete (absent names, same name in both lists, invalid names, invalid JSON, nil values, oversize with lowered MaxDocSize) and CAS/CRC32c macro specs; non-trivial = a call on a document carrying at least two xattrs it does not name, or a call that fails after argument validation (CAS mismatch / missing xattr / oversize), or a macro expansion; distinct by <op, prior class, CAS class, outcome> sequence",
		func(r *Run) bool {
			for _, tr := range r.Trace {
				if !isDocOp(tr) || !family(tr.Op).xattr {
					continue
				}
				if len(tr.Op.Macros) > 0 && tr.Err == "" {
					return true
				}
				switch tr.Outcome {
				case "cas-refused", "xattr-missing", "toobig", "toobig?":
					return true
				}
				if tr.Prior == "liveX" || tr.Prior == "tombX" {
					named := len(tr.Op.X) + len(tr.Op.XDel) + len(tr.Op.XNil)
					if named <= 1 && tr.Err == "" {
						return true
					}
				}
			}
			return false
		})
}

// C17 — revision sequence number.
func TestC17(t *testing.T) {
	pr := &Profile{
		Keys:        []string{"a", "b"},
		MultiHandle: true, Purge: 3, Reopen: 1, Backfill: 3, Sync: 2, FeedsMax: 2, BadArgs: 4,
	}
	seqProperty(t, "C17", "TestC17", pr, 1500,
		"rapid histories over all mutating entry points on two keys, with live feeds and dump-feed backfills; the revision number is read through $document.revid, $document and the RevNo of live and backfill events; non-trivial = a key successfully mutated through at least four different entry points including at least one delete and one resurrection; distinct by <op, prior class, CAS class, outcome> sequence",
		func(r *Run) bool {
			for _, cm := range r.W.Model.Colls {
				for _, ki := range cm.Docs {
					if len(ki.Writers) >= 4 && len(ki.Deletes) >= 1 && len(ki.Resurrects) >= 1 {
						return true
					}
				}
			}
			return false
		})
}

// C18 (a) — sub-document writes, sequential part.
func TestC18Seq(t *testing.T) {
	pr := &Profile{
		Ops: map[string]int{"WriteSubDoc": 30, "SubdocInsert": 18, "Set": 10, "SetRaw": 3, "Add": 4, "Delete": 5, "WriteCas": 5, "Update": 3,
			"SetXattrs": 4, "WriteWithXattrs": 4, "WriteTombstoneWithXattrs": 2, "Incr": 1},
		Keys:      []string{"a", "b"},
		SmallDocs: true, MultiHandle: true, Purge: 1, Reopen: 1,
		Extra: []ExtraAction{{Name: "GetSubDocRaw", Weight: 5, Gen: genGetSubDoc}},
	}
	seqProperty(t, "C18", "TestC18Seq", pr, 2000,
		"rapid histories weighted to WriteSubDoc / SubdocInsert with generated dotted paths (present / absent leaf, absent parent, through non-objects, refused syntax), values (incl. empty = remove), CAS classes, on object / non-object / raw / deleted / absent documents, compared with a parse-edit-marshal reference; GetSubDocRaw steps compare the addressed property (and up to two more) with the same reference and keep the returned bytes, which must still be the same after later steps; non-trivial = a successful write at a nested path (>= 2 components) into a document with >= 3 sibling properties, or any refused sub-document write on an existing document; distinct by <op, prior class, CAS class, outcome> sequence",
		func(r *Run) bool {
			for _, tr := range r.Trace {
				if !isDocOp(tr) || !family(tr.Op).subdoc {
					continue
				}
				if tr.Err != "" && tr.Prior != "absent" {
					return true
				}
				if tr.Err == "" && len(splitPath(tr.Op.Path)) >= 2 {
					return true
				}
			}
			return false
		})
}

func splitPath(p string) []string {
	var out []string
	cur := ""
	for _, ch := range p {
		if ch == '.' {
			out = append(out, cur)
			cur = ""
		} else {
			cur += string(ch)
		}
	}
	return append(out, cur)
}

// C08 (a) — live feed events, sequential part.
func TestC08Seq(t *testing.T) {
	pr := &Profile{
		MultiHandle: true, Purge: 2, Reopen: 1, Sync: 4, FeedsMax: 3, BadArgs: 6,
		// feeds come and go in the middle of a history: those that run keep getting exactly their events
		Extra: []ExtraAction{{Name: "StartFeed", Weight: 2, Gen: genStartFeed}, {Name: "StopFeed", Weight: 2, Gen: genStopFeed},
			{Name: "DropColl", Weight: 1, Gen: genDropColl}, {Name: "CreateColl", Weight: 2, Gen: genCreateColl}},
	}
	seqProperty(t, "C08", "TestC08Seq", pr, 1500,
		"rapid histories over all entry points (including failing calls) with 1-3 live feeds (plain, KeysOnly, multi-collection) started through any handle, further feeds started and running ones ended by their terminator in the middle of the history (up to five at a time), and writes through any handle; after a sentinel write the events of each feed are compared, one by one, with the documents they must describe; non-trivial = at least one live feed, and either >= 2 handles or >= 2 feeds, with >= 5 different entry points among the successful mutations; distinct by <op, prior class, CAS class, outcome> sequence",
		func(r *Run) bool {
			if len(r.W.Cfg.Feeds) == 0 || (len(r.W.Cfg.Feeds) < 2 && r.W.Cfg.Handles < 2) {
				return false
			}
			kinds := map[string]bool{}
			for _, tr := range r.Trace {
				if isDocOp(tr) && tr.Err == "" && tr.Outcome != "refused" {
					kinds[tr.Op.K] = true
				}
			}
			return len(kinds) >= 5
		})
}

// C09 (a) — backfill is a faithful snapshot, sequential part.
func TestC09Seq(t *testing.T) {
	pr := &Profile{
		MultiHandle: true, Purge: 2, Reopen: 1, Sync: 3, FeedsMax: 1, Backfill: 12,
		// checkpointed dump feeds, resumed or started from an explicit CAS: what an earlier run of the
		// same feed ID persisted must not take documents away from a backfill that names its start
		// and live feeds that start with a backfill from 0 or a named CAS in the middle of a history
		Extra: []ExtraAction{{Name: "CpDump", Weight: 2, Gen: genCpDump}, {Name: "StartFeed", Weight: 2, Gen: genStartFeed}, {Name: "StopFeed", Weight: 1, Gen: genStopFeed}},
	}
	seqProperty(t, "C09", "TestC09Seq", pr, 1500,
		"rapid histories over all entry points followed / interleaved by dump feeds from generated start CAS values (0, a document's CAS, one above, one below, max), by checkpointed dump feeds (resumed or with a named start) and by live feeds that start with a backfill from 0 or a named CAS and must then deliver every later mutation; the events between the markers are compared with the model (one per key with CAS >= start, CAS order, every field) and with the datatype learnt from the live event of the same version; non-trivial = a backfill whose start CAS cuts strictly inside the history and whose collection holds at least one tombstone with xattrs or one document with an expiry; distinct by <op, prior class, CAS class, outcome> sequence",
		func(r *Run) bool {
			inside := false
			for _, tr := range r.Trace {
				if tr.Op.K == "Backfill" {
					if k, _ := tr.Op.Arg["from"].(string); k == "ofkey" || k == "after" || k == "before" {
						inside = true
					}
				}
			}
			if !inside {
				return false
			}
			for _, cm := range r.W.Model.Colls {
				for _, ki := range cm.Docs {
					if ki.St.Present && ((ki.St.Body == nil && len(ki.St.X) > 0) || ki.St.Exp != 0) {
						return true
					}
				}
			}
			return false
		})
}

// ---- C18: GetSubDocRaw returns the JSON of exactly the addressed property -------------------------

func init() {
	pseudoHandlers["GetSubDocRaw"] = func(r *Run, op Op) { r.GetSubDocStep(op) }
}

func (r *Run) GetSubDocStep(op Op) {
	c18 := []string{"C18"}
	tr := StepTrace{Op: op, Outcome: "subdoc-read"}
	defer func() { r.Trace = append(r.Trace, tr) }()
	p := r.W.Model.Get(op.C, op.Key)
	tr.Prior = p.Class()
	val, cas, err := r.W.Coll(op.H, op.C).GetSubDocRaw(ctx, op.Key, op.Path)
	if err == nil {
		r.hold("GetSubDocRaw", op.Key+" "+op.Path, "C18", val)
	}
	cls := errClass(err)
	fail := func(f string, a ...any) {
		tr.Outcome = "DEVIATION"
		r.dev("subdoc.read", c18, "GetSubDocRaw(%q, %q) on %s: %s", op.Key, op.Path, p, fmt.Sprintf(f, a...))
	}
	if !subdocPathOK(op.Path) {
		if err == nil {
			fail("an unsupported path succeeded with %s", val)
		}
		tr.Outcome = "bad-path"
		return
	}
	if !p.HasBody() {
		if cls != "missing" {
			fail("expected a missing-key error, got %v (value %s)", err, val)
		}
		tr.Outcome = "missing"
		return
	}
	var doc any
	if json.Unmarshal(p.Body, &doc) != nil {
		if err == nil {
			fail("the body is not JSON, yet the call returned %s", val)
		}
		tr.Outcome = "not-json"
		return
	}
	cur, ok := doc.(map[string]any)
	if !ok {
		if err == nil && doc != nil {
			fail("the body is not a JSON object, yet the call returned %s", val)
		}
		tr.Outcome = "not-object"
		return
	}
	var want any = cur
	for _, comp := range strings.Split(op.Path, ".") {
		m, isMap := want.(map[string]any)
		if !isMap {
			if cls != "pathmismatch" && cls != "pathnotfound" {
				fail("the path runs through a non-object; expected a path error, got %v (value %s)", err, val)
			}
			tr.Outcome = "path-mismatch"
			return
		}
		next, has := m[comp]
		if !has || next == nil {
			if cls != "pathnotfound" && cls != "pathmismatch" {
				fail("the property does not exist; expected path-not-found, got %v (value %s)", err, val)
			}
			tr.Outcome = "path-not-found"
			return
		}
		want = next
	}
	if err != nil {
		fail("the property exists (%s) but the call failed: %v", mustJSON(want), err)
		return
	}
	if !jsonEqual(val, mustJSON(want)) {
		fail("returned %s, the addressed property is %s", val, mustJSON(want))
	}
	if cas != p.Cas {
		fail("returned CAS %#x, the document's CAS is %#x", cas, p.Cas)
	}
	// a caller reads several properties and looks at them afterwards: up to two further top-level
	// properties of the same document (the results are kept and compared again after later calls)
	names := make([]string, 0, len(cur))
	for n, v := range cur {
		if v != nil && n != "" && subdocPathOK(n) && !strings.Contains(n, ".") {
			names = append(names, n)
		}
	}
	sort.Strings(names)
	for i, n := range names {
		if i >= 2 {
			break
		}
		v2, _, err2 := r.W.Coll(op.H, op.C).GetSubDocRaw(ctx, op.Key, n)
		if err2 != nil || !jsonEqual(v2, mustJSON(cur[n])) {
			fail("a further read of property %q returned %s (err %v), the property is %s", n, v2, err2, mustJSON(cur[n]))
			continue
		}
		r.hold("GetSubDocRaw", op.Key+" "+n, "C18", v2)
	}
}

func genGetSubDoc(rt *rapid.T, r *Run) (Op, bool) {
	w := r.W
	c := pickColl(rt, w, "gsd.coll")
	keys := w.Model.Keys(c)
	if len(keys) == 0 {
		return Op{}, false
	}
	op := Op{K: "GetSubDocRaw", C: c, Key: pick(rt, keys, "gsd.key")}
	if len(w.Handles) > 1 {
		op.H = rapid.IntRange(0, len(w.Handles)-1).Draw(rt, "gsd.h")
	}
	op.Path = genSubdocPath(rt, w.Model.Get(c, op.Key))
	return op, true
}
