package h

// C04 and the bucket's own mutations: the deletions made by the expiry run are stamped with CAS
// values too. With the wall clock standing still (or behind the persisted high-water mark) they,
// and every write that follows them, must still be pairwise distinct and increasing.

import (
	"encoding/json"
	"fmt"
	"sync"
	"testing"
	"time"

	"github.com/couchbaselabs/rosmar"
	"pgregory.net/rapid"
)

type casExpiryCase struct {
	Disk    bool `json:"disk"`
	Colls   int  `json:"colls"`
	Expired int  `json:"expired"` // documents written already past their (absolute) expiry: the expiry run fires at once
	Before  int  `json:"before"`  // ordinary writes before
	After   int  `json:"after"`   // ordinary writes after the run
	Frozen  bool `json:"frozen"`  // the clock stands still during the whole case
}

func runCasExpiryCase(c casExpiryCase) (devs []Deviation, reaped int, err error) {
	bad := func(clause, f string, a ...any) {
		devs = append(devs, Deviation{Clause: clause, Props: []string{"C04"}, Sig: clause, Msg: fmt.Sprintf(f, a...)})
	}
	if c.Frozen {
		base := rosmar.VerifGlobalHLCHighest() + 0x200000
		restore := rosmar.VerifSetGlobalClock(func() uint64 { return base })
		defer restore()
	}
	w, err := NewWorld(Config{Disk: c.Disk, Handles: 1, Colls: allCollNames[:c.Colls]})
	if err != nil {
		return nil, 0, err
	}
	defer w.Close()
	type handed struct {
		cas  uint64
		what string
	}
	var order []handed // in the order the mutations happened (as far as the test can tell)
	write := func(i int, tag string) {
		ds := w.Coll(0, i%c.Colls)
		key := fmt.Sprintf("%s%d", tag, i)
		cas, e := ds.WriteCas(key, 0, 0, []byte(fmt.Sprintf(`{"%s":%d}`, tag, i)), 0)
		if e != nil {
			bad("casexp.write", "WriteCas(%s) failed: %v", key, e)
			return
		}
		order = append(order, handed{cas, "write " + key})
	}
	for i := 0; i < c.Before; i++ {
		write(i, "b")
	}
	past := nowSec() - 3
	for i := 0; i < c.Expired; i++ {
		ds := w.Coll(0, i%c.Colls)
		cas, e := ds.WriteCas(fmt.Sprintf("x%d", i), past, 0, []byte(`{"x":1}`), 0)
		if e == nil {
			order = append(order, handed{cas, fmt.Sprintf("write x%d", i)})
		}
	}
	// the expiry run: wait until every expired document is a tombstone (bounded)
	deadline := time.Now().Add(8 * time.Second)
	for {
		reaped = 0
		for i := 0; i < c.Expired; i++ {
			st, _ := Observe(w.Coll(0, i%c.Colls), fmt.Sprintf("x%d", i), nil)
			if st.Present && st.Body == nil {
				reaped++
			}
		}
		if reaped == c.Expired || time.Now().After(deadline) {
			break
		}
		time.Sleep(20 * time.Millisecond)
	}
	for i := 0; i < c.Expired; i++ {
		st, _ := Observe(w.Coll(0, i%c.Colls), fmt.Sprintf("x%d", i), nil)
		if st.Present && st.Body == nil {
			order = append(order, handed{st.Cas, fmt.Sprintf("expiry of x%d", i)})
		}
	}
	nRun := len(order)
	for i := 0; i < c.After; i++ {
		write(i, "a")
	}
	seen := map[uint64]string{}
	for _, h := range order {
		if prev, dup := seen[h.cas]; dup {
			bad("casexp.dup", "CAS %#x was handed out twice: to the %s and to the %s", h.cas, prev, h.what)
		}
		seen[h.cas] = h.what
	}
	// every write after the run is above everything before it (the order among the run's own
	// deletions is the run's business)
	var maxBefore uint64
	for _, h := range order[:nRun] {
		if h.cas > maxBefore {
			maxBefore = h.cas
		}
	}
	prev := maxBefore
	for _, h := range order[nRun:] {
		if h.cas <= prev {
			bad("casexp.order", "the %s got CAS %#x, not greater than %#x handed out before it (expiry deletions included)", h.what, h.cas, prev)
		}
		prev = h.cas
	}
	return
}

func TestC04Expiry(t *testing.T) {
	st := statsFor("C04", "TestC04Expiry")
	st.Rule = "0-4 ordinary writes, then 1-6 documents written already past their absolute expiry over 1-2 collections (the expiry run reaps them at once, in one run), then 1-5 ordinary writes, half of the cases with the global clock standing still: the CAS of every write and of every expiry deletion is distinct, and every write after the run exceeds everything handed out before it; non-trivial = the run reaped at least two documents while the clock stood still; distinct by case"
	if replayMode() {
		rp := loadReplay("TestC04Expiry")
		if rp == nil {
			t.Skip("replay file is for another test")
		}
		var c casExpiryCase
		if err := json.Unmarshal(rp.Extra, &c); err != nil {
			t.Fatal(err)
		}
		devs, _, err := runCasExpiryCase(c)
		if err != nil {
			t.Fatalf("infrastructure: %v", err)
		}
		st.Case(1, true, func() any { return c })
		if len(devs) > 0 {
			t.Fatalf("property C04 violated by replay:%s", devText(devs))
		}
		return
	}
	var once sync.Once
	rapid.Check(t, func(rt *rapid.T) {
		c := casExpiryCase{Disk: chance(rt, 30, "disk"), Colls: rapid.IntRange(1, 2).Draw(rt, "colls"), Expired: rapid.IntRange(1, 6).Draw(rt, "expired"),
			Before: rapid.IntRange(0, 4).Draw(rt, "before"), After: rapid.IntRange(1, 5).Draw(rt, "after"), Frozen: chance(rt, 60, "frozen")}
		devs, reaped, err := runCasExpiryCase(c)
		if err != nil {
			rt.Fatalf("INFRA: %v", err)
		}
		b, _ := json.Marshal(c)
		st.Case(fnvString(string(b)), c.Frozen && reaped >= 2, func() any { return c })
		var ds []Deviation
		for _, d := range devs {
			if id, ok := tolerated("C04", d); ok {
				st.KnownHits[id]++
				continue
			}
			ds = append(ds, d)
		}
		if len(ds) > 0 {
			once.Do(func() {
				saveReplay(&Replay{Property: "C04", Test: "TestC04Expiry", Extra: b, Expect: ds})
				st.Violations++
			})
			rt.Fatalf("property C04 violated (replay %s):%s", replayPath("C04", "TestC04Expiry"), devText(ds))
		}
	})
}
