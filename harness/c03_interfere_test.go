package h

// C03, deterministic part: "the callback's result is only stored on top of the exact version the
// callback was shown". The harness owns the schedule without any hook: the interfering writes are
// made from inside the read-modify-write callback itself (through any handle), i.e. exactly between
// the call's read and its write. Whatever the interference, the call must end up storing f(version
// shown to its LAST callback invocation), and that version must be the one current when it wrote.

import (
	"encoding/json"
	"fmt"
	"sync"
	"testing"
	"time"

	sgbucket "github.com/couchbase/sg-bucket"
	"pgregory.net/rapid"
)

type iOp struct {
	K    string `json:"k"` // Set Delete WriteCas0 Remove SetX TombX Add Purge SubDoc
	H    int    `json:"h,omitempty"`
	Body string `json:"body,omitempty"`
}

type interfereCase struct {
	Disk    bool    `json:"disk"`
	Handles int     `json:"handles"`
	RMW     string  `json:"rmw"` // Update | UpdateX | UpdateXTomb (callback asks for a tombstone)
	H       int     `json:"h"`
	Prior   []iOp   `json:"prior"`
	Interf  [][]iOp `json:"interf"` // Interf[n]: writes made inside callback invocation n
}

var interfereOps = []string{"Set", "SetPE", "Delete", "WriteCas0", "Remove", "SetX", "TombX", "Add", "Purge", "SubDoc", "MetaFuture", "MetaDelFuture"}

func runIOp(w *World, key string, op iOp, serial int) {
	ds := w.Coll(op.H%len(w.Handles), 0)
	body := []byte(fmt.Sprintf(`{"l":["i%d"]}`, serial))
	x := map[string][]byte{"_x": []byte(fmt.Sprintf(`{"l":["ix%d"]}`, serial))}
	cur, _ := Observe(ds, key, []string{"_x"})
	switch op.K {
	case "Set":
		_ = ds.Set(key, 0, nil, body)
	case "SetPE":
		_ = ds.Set(key, 0, &sgbucket.UpsertOptions{PreserveExpiry: true}, body)
	case "Add":
		_, _ = ds.AddRaw(key, 0, body)
	case "Delete":
		_ = ds.Delete(key)
	case "WriteCas0":
		_, _ = ds.WriteCas(key, 0, 0, body, 0)
	case "Remove":
		_, _ = ds.Remove(key, cur.Cas)
	case "SetX":
		if cur.Present {
			_, _ = ds.UpdateXattrs(ctx, key, 0, cur.Cas, x, nil)
		}
	case "TombX":
		_, _ = ds.WriteTombstoneWithXattrs(ctx, key, 0, cur.Cas, x, nil, cur.HasBody(), nil)
	case "Purge":
		_, _ = w.Handles[op.H%len(w.Handles)].PurgeTombstones()
	case "SubDoc":
		_, _ = ds.WriteSubDoc(ctx, key, "p", 0, []byte(fmt.Sprintf(`%d`, serial)))
	case "MetaFuture", "MetaDelFuture":
		// an imported version whose CAS is an hour ahead of the clock: the writes that follow get
		// smaller CAS values than the version they replace
		rc := w.RColl(op.H%len(w.Handles), 0)
		future := uint64(time.Now().Add(time.Hour).UnixNano())&^0xffff | uint64(0x3000+serial)
		if op.K == "MetaFuture" {
			_ = rc.SetWithMeta(ctx, key, cur.Cas, future, 0, nil, body, sgbucket.FeedDataTypeJSON)
		} else {
			_ = rc.DeleteWithMeta(ctx, key, cur.Cas, future, 0, nil)
		}
	}
}

type shownVer struct {
	Body string // nothing = no body
	X    string // "" = none
	Cas  uint64
	Exp  uint32
}

func verOf(s St) shownVer {
	v := shownVer{Body: nothing, Cas: s.Cas, Exp: s.Exp}
	if s.HasBody() {
		v.Body = jsonCanon(string(s.Body))
	}
	if x, ok := s.X["_x"]; ok {
		v.X = jsonCanon(x)
	}
	if !s.Present {
		v.Cas = 0
	}
	return v
}

func runInterfereCase(c interfereCase) (devs []Deviation, interfered bool, err error) {
	w, err := NewWorld(Config{Disk: c.Disk, Handles: c.Handles, Colls: []string{allCollNames[0]}})
	if err != nil {
		return nil, false, err
	}
	defer w.Close()
	bad := func(clause, f string, a ...any) {
		devs = append(devs, Deviation{Clause: clause, Props: []string{"C03"}, Sig: clause + "|" + c.RMW, Msg: fmt.Sprintf(f, a...)})
	}
	const key = "doc"
	serial := 0
	for _, op := range c.Prior {
		serial++
		runIOp(w, key, op, serial)
	}
	ds := w.Coll(c.H%c.Handles, 0)
	var shown []shownVer // per invocation
	var after []shownVer // state right after the interference of that invocation
	var changed []bool   // the interference of that invocation produced a new version
	step := func(body []byte, xattrs map[string][]byte, cas uint64, haveX bool) shownVer {
		n := len(shown)
		v := shownVer{Body: nothing, Cas: cas}
		if body != nil {
			v.Body = jsonCanon(string(body))
		}
		if x, ok := xattrs["_x"]; ok && haveX {
			v.X = jsonCanon(string(x))
		}
		shown = append(shown, v)
		before, _ := Observe(ds, key, []string{"_x"})
		if n > 0 && verOf(before) != after[n-1] {
			// nobody but the call itself wrote since the previous invocation ended: an abandoned
			// attempt left something behind
			bad("rmw.partial", "between callback invocations %d and %d of %s the document changed from %+v to %+v although the only writer was the call itself, whose attempt was abandoned", n-1, n, c.RMW, after[n-1], verOf(before))
		}
		if n < len(c.Interf) {
			for _, op := range c.Interf[n] {
				serial++
				runIOp(w, key, op, serial)
			}
		}
		now, _ := Observe(ds, key, []string{"_x"})
		after = append(after, verOf(now))
		changed = append(changed, now.Cas != before.Cas || now.Present != before.Present)
		return v
	}
	tag := "rmw"
	var callErr error
	switch c.RMW {
	case "Update":
		_, callErr = ds.Update(key, 0, func(cur []byte) ([]byte, *uint32, bool, error) {
			if len(shown) > 14 {
				return nil, nil, false, fmt.Errorf("too many retries")
			}
			v := step(cur, nil, 0, false)
			return []byte(appendTag(v.Body, tag)), nil, false, nil
		})
	case "UpdateExpOnce":
		// an expiry-only Update: the first invocation asks for an expiry, a later one (the version
		// changed under it) cancels: nothing of the abandoned attempt may stick to the new version
		expOnce := nowSec() + 7200
		_, callErr = ds.Update(key, 0, func(cur []byte) ([]byte, *uint32, bool, error) {
			if len(shown) > 14 {
				return nil, nil, false, fmt.Errorf("too many retries")
			}
			step(cur, nil, 0, false)
			if len(shown) == 1 {
				e := expOnce
				return nil, &e, false, nil
			}
			return nil, nil, false, nil
		})
		if callErr == nil && len(shown) > 0 {
			last := len(shown) - 1
			final, _ := Observe(ds, key, []string{"_x"})
			fv := verOf(final)
			switch {
			case len(shown) >= 2:
				// retried and then cancelled: the document is exactly what the interference left
				if fv != after[last] {
					b, _ := json.Marshal(map[string]any{"shown": shown, "after": after, "final": fv})
					bad("rmw.cancelled", "an expiry-only Update whose callback cancelled on its last invocation still changed the document: interference left %+v, final %+v (%s)", after[last], fv, b)
				}
			case changed[0]:
				// a single invocation although the version changed under it: if the body the callback
				// was shown is not the current one, nothing may have been applied (a key without body,
				// before and after, is the don't-care corner "expiry on nothing")
				if shown[0].Body != after[0].Body && fv != after[0] {
					bad("rmw.stale", "an expiry-only Update was applied although the document changed after its callback was shown it: shown %+v, current when writing %+v, final %+v", shown[0], after[0], fv)
				}
			case shown[0].Body != nothing && fv.Exp != expOnce:
				bad("rmw.result", "an expiry-only Update returned success but the expiry is %d, not %d", fv.Exp, expOnce)
			}
		}
		for _, ch := range changed {
			interfered = interfered || ch
		}
		return
	case "UpdateX", "UpdateXTomb":
		_, callErr = ds.WriteUpdateWithXattrs(ctx, key, []string{"_x"}, 0, nil, nil, func(doc []byte, xattrs map[string][]byte, cas uint64) (sgbucket.UpdatedDoc, error) {
			if len(shown) > 14 {
				return sgbucket.UpdatedDoc{}, fmt.Errorf("too many retries")
			}
			v := step(doc, xattrs, cas, true)
			nx := nothing
			if v.X != "" {
				nx = v.X
			}
			u := sgbucket.UpdatedDoc{Doc: []byte(appendTag(v.Body, tag)), Xattrs: map[string][]byte{"_x": []byte(appendTag(nx, tag))}}
			if c.RMW == "UpdateXTomb" {
				u.Doc, u.IsTombstone = nil, true
			}
			return u, nil
		})
	}
	for _, ch := range changed {
		interfered = interfered || ch
	}
	if len(shown) == 0 {
		bad("rmw.nocallback", "%s returned (err %v) without invoking its callback", c.RMW, callErr)
		return
	}
	last := len(shown) - 1
	final, _ := Observe(ds, key, []string{"_x"})
	fv := verOf(final)
	desc := func() string {
		b, _ := json.Marshal(map[string]any{"shown": shown, "after": after, "changed": changed, "final": fv})
		return string(b)
	}
	if callErr != nil {
		// a clean refusal that stores nothing is linearizable (the call "did not happen") only if nothing of it is visible
		if fv != after[last] {
			bad("rmw.errwrote", "%s failed (%v) but the document is not the version left by the interference: %s", c.RMW, callErr, desc())
		}
		if errClass(callErr) != "cas" && errClass(callErr) != "exists" && errClass(callErr) != "missing" {
			// UpdateXTomb on a document that has no body and no row cannot write a tombstone: don't care
			if !(c.RMW == "UpdateXTomb") {
				bad("rmw.err", "%s failed with %v although every interfering write had finished before it wrote: a read-modify-write loop must retry, not fail (%s)", c.RMW, callErr, desc())
			}
		}
		return
	}
	// (1) the version shown to the last invocation is the version the result was stored on: the
	// interference of that invocation must not have produced a new version the callback did not see
	sl, al := shown[last], after[last]
	stale := false
	switch c.RMW {
	case "Update":
		stale = sl.Body != al.Body // Update shows the body only
	default:
		stale = sl.Body != al.Body || sl.X != al.X || (changed[last] && sl.Cas != al.Cas)
	}
	if stale {
		bad("rmw.stale", "%s stored its callback's result although the document had changed after the callback was shown it: shown %+v, current when writing %+v (%s)", c.RMW, sl, al, desc())
		return
	}
	// (2) what is stored is f(shown)
	want := shownVer{Body: appendTag(sl.Body, tag)}
	switch c.RMW {
	case "Update":
		if sl.Body != nothing {
			want.X = al.X // a body-only write keeps the xattrs of a live document
		}
	case "UpdateX":
		nx := nothing
		if sl.X != "" {
			nx = sl.X
		}
		want.X = appendTag(nx, tag)
	case "UpdateXTomb":
		nx := nothing
		if sl.X != "" {
			nx = sl.X
		}
		want.Body, want.X = nothing, appendTag(nx, tag)
	}
	if fv.Body != want.Body || fv.X != want.X {
		bad("rmw.result", "%s: the stored document is body %q _x %q, the callback's result for the version it was shown is body %q _x %q (%s)", c.RMW, fv.Body, fv.X, want.Body, want.X, desc())
	}
	return
}

func genInterfereCase(rt *rapid.T) interfereCase {
	c := interfereCase{Disk: chance(rt, 30, "disk"), Handles: rapid.IntRange(1, 2).Draw(rt, "handles"), RMW: pick(rt, []string{"Update", "UpdateX", "UpdateX", "UpdateXTomb", "UpdateExpOnce"}, "rmw")}
	c.H = rapid.IntRange(0, c.Handles-1).Draw(rt, "h")
	gen := func(label string, max int) []iOp {
		n := rapid.IntRange(0, max).Draw(rt, label)
		var ops []iOp
		for i := 0; i < n; i++ {
			ops = append(ops, iOp{K: pick(rt, interfereOps, "k"), H: rapid.IntRange(0, c.Handles-1).Draw(rt, "oh")})
		}
		return ops
	}
	c.Prior = gen("nprior", 4)
	rounds := pick(rt, []int{1, 1, 2, 2, 3, 3, 6, 11}, "rounds")
	for i := 0; i < rounds; i++ {
		c.Interf = append(c.Interf, gen("ninterf", 3))
	}
	return c
}

func TestC03Interfere(t *testing.T) {
	st := statsFor("C03", "TestC03Interfere")
	st.Rule = "a document is brought into a generated state (absent / live / tombstone, with or without the xattr _x) and Update or WriteUpdateWithXattrs (body+xattr, or asking for a tombstone) is called with a callback that, on its first 1-11 invocations, itself performs 0-3 generated writes to the same key through any handle (Set, Set with PreserveExpiry, Add, Delete, WriteCas cas=0, Remove, UpdateXattrs, WriteTombstoneWithXattrs, WriteSubDoc, PurgeTombstones, SetWithMeta / DeleteWithMeta with a CAS an hour ahead) - i.e. exactly between the call's read and its write; the call must retry until its last invocation was shown the version that is current when it writes, and store f(that version); non-trivial = an interfering write produced a new version; distinct by case"
	if replayMode() {
		rp := loadReplay("TestC03Interfere")
		if rp == nil {
			t.Skip("replay file is for another test")
		}
		var c interfereCase
		if err := json.Unmarshal(rp.Extra, &c); err != nil {
			t.Fatal(err)
		}
		devs, _, err := runInterfereCase(c)
		if err != nil {
			t.Fatalf("infrastructure: %v", err)
		}
		st.Case(1, true, func() any { return c })
		if len(devs) > 0 {
			t.Fatalf("property C03 violated by replay:%s", devText(devs))
		}
		return
	}
	var once sync.Once
	rapid.Check(t, func(rt *rapid.T) {
		c := genInterfereCase(rt)
		devs, interfered, err := runInterfereCase(c)
		if err != nil {
			rt.Fatalf("INFRA: %v", err)
		}
		b, _ := json.Marshal(c)
		st.Case(fnvString(string(b)), interfered, func() any { return c })
		st.Label("rmw", c.RMW)
		var ds []Deviation
		for _, d := range devs {
			if id, ok := tolerated("C03", d); ok {
				st.KnownHits[id]++
				continue
			}
			ds = append(ds, d)
		}
		if len(ds) > 0 {
			once.Do(func() {
				saveReplay(&Replay{Property: "C03", Test: "TestC03Interfere", Extra: b, Expect: ds})
				st.Violations++
			})
			rt.Fatalf("property C03 violated (replay %s):%s", replayPath("C03", "TestC03Interfere"), devText(ds))
		}
	})
}
