package h

// Schedule control on top of the verif hook points: seeded noise, and the parking scheduler.

import (
	"math/rand"
	"runtime"
	"sync"
	"time"

	"github.com/couchbaselabs/rosmar"
)

var hookMu sync.Mutex // one scenario at a time owns the process-global hook

// noiseHook installs a handler that yields / sleeps 0-300us at every hook point of the bucket
// with the given name (tag), from a PRNG seeded by the test case. Returns the restore function.
func noiseHook(seed int64, tag string) func() {
	hookMu.Lock()
	var mu sync.Mutex
	rng := rand.New(rand.NewSource(seed))
	rosmar.VerifSetHook(func(name, t string) {
		if t != tag && t != "" {
			return
		}
		mu.Lock()
		n := rng.Intn(8)
		d := time.Duration(rng.Intn(300)) * time.Microsecond
		mu.Unlock()
		switch {
		case n < 3:
			runtime.Gosched()
		case n < 5:
			time.Sleep(d)
		}
	})
	var once sync.Once
	return func() {
		once.Do(func() {
			rosmar.VerifSetHook(nil)
			hookMu.Unlock()
		})
	}
}
