package h

// Schedule control on top of the verif hook points: seeded noise, and the parking scheduler.

import (
	"fmt"
	"math/rand"
	"runtime"
	"sync"
	"time"

	"github.com/couchbaselabs/rosmar"
)

var hookMu sync.Mutex // one scenario at a time owns the process-global hook

// noiseHook installs a handler that yields / sleeps 0-300us at every hook point of the bucket
// with the given name (tag), from a PRNG seeded by the test case. Returns the restore function.
func noiseHook(seed int64, tag string) func() {
	hookMu.Lock()
	var mu sync.Mutex
	rng := rand.New(rand.NewSource(seed))
	rosmar.VerifSetHook(func(name, t string) {
		if t != tag && t != "" {
			return
		}
		mu.Lock()
		n := rng.Intn(8)
		d := time.Duration(rng.Intn(300)) * time.Microsecond
		mu.Unlock()
		switch {
		case n < 3:
			runtime.Gosched()
		case n < 5:
			time.Sleep(d)
		}
	})
	var once sync.Once
	return func() {
		once.Do(func() {
			rosmar.VerifSetHook(nil)
			hookMu.Unlock()
		})
	}
}

// ---- parking scheduler ----------------------------------------------------------------------
// A concurrent test case is a script. Client operations run in lanes (goroutines started by the
// script); a lane runs until it finishes or reaches a hook point the script armed for it, where it
// parks until resumed. Background goroutines of rosmar (feed loops, expiry timer, updateAfter) can
// be held at gates. Only hook points reached without a rosmar lock held are used for parking, so a
// parked lane never blocks the lane that runs. The interleaving is therefore a function of the
// script alone and replays exactly.

type Lane struct {
	Name   string
	gid    int64
	arm    map[string]bool
	parked string        // hook it is parked at ("" = running or done)
	resume chan struct{} // closed to let it continue
	event  chan string   // "parked:<hook>" / "done"
	done   bool
	Result any
}

type gate struct {
	waiting int
	open    chan struct{}
}

type Sched struct {
	mu      sync.Mutex
	tag     string
	lanes   map[string]*Lane
	byGID   map[int64]*Lane
	gates   map[string]*gate
	gateCh  chan string // notifications "gate:<hook>"
	hits    map[string]int
	stopped bool
	Grace   time.Duration // how long Start/Resume wait before reporting "running" (0 = watchdog time)
}

func curGID() int64 {
	var buf [64]byte
	n := runtime.Stack(buf[:], false)
	// "goroutine 123 [running]:"
	var id int64
	for _, c := range buf[10:n] {
		if c < '0' || c > '9' {
			break
		}
		id = id*10 + int64(c-'0')
	}
	return id
}

// NewSched installs the scheduler as the process-global hook handler for bucket `tag`.
func NewSched(tag string) *Sched {
	hookMu.Lock()
	s := &Sched{tag: tag, lanes: map[string]*Lane{}, byGID: map[int64]*Lane{}, gates: map[string]*gate{}, gateCh: make(chan string, 64), hits: map[string]int{}}
	rosmar.VerifSetHook(s.onHook)
	return s
}

// Stop releases everything that is parked and uninstalls the handler.
func (s *Sched) Stop() {
	s.mu.Lock()
	if s.stopped {
		s.mu.Unlock()
		return
	}
	s.stopped = true
	for _, l := range s.lanes {
		if l.parked != "" {
			l.parked = ""
			close(l.resume)
		}
	}
	for _, g := range s.gates {
		close(g.open)
	}
	s.gates = map[string]*gate{}
	s.mu.Unlock()
	rosmar.VerifSetHook(nil)
	hookMu.Unlock()
}

func (s *Sched) onHook(name, tag string) {
	if tag != "" && tag != s.tag {
		return
	}
	gid := curGID()
	s.mu.Lock()
	if s.stopped {
		s.mu.Unlock()
		return
	}
	s.hits[name]++
	if l := s.byGID[gid]; l != nil {
		if l.arm[name] {
			l.parked = name
			ch := make(chan struct{})
			l.resume = ch
			s.mu.Unlock()
			l.event <- "parked:" + name
			<-ch
			return
		}
		s.mu.Unlock()
		return
	}
	if g := s.gates[name]; g != nil {
		g.waiting++
		ch := g.open
		s.mu.Unlock()
		select {
		case s.gateCh <- name:
		default:
		}
		<-ch
		return
	}
	s.mu.Unlock()
}

// ParkHere lets harness code running inside a lane (an Update callback, a feed callback that
// belongs to a lane) park as if it were a hook point.
func (s *Sched) ParkHere(name string) { s.onHook(name, s.tag) }

// Start runs fn in a new lane until it finishes or parks at one of the armed hooks.
// Returns "done" or "parked:<hook>"; "hang" if neither happens within the watchdog time.
func (s *Sched) Start(name string, arm []string, fn func()) string {
	l := &Lane{Name: name, arm: map[string]bool{}, event: make(chan string, 4)}
	for _, a := range arm {
		l.arm[a] = true
	}
	s.mu.Lock()
	s.lanes[name] = l
	s.mu.Unlock()
	ready := make(chan struct{})
	go func() {
		gid := curGID()
		s.mu.Lock()
		l.gid = gid
		s.byGID[gid] = l
		s.mu.Unlock()
		close(ready)
		defer func() {
			r := recover()
			s.mu.Lock()
			if r != nil {
				l.Result = fmt.Sprintf("PANIC: %v", r)
			}
			l.done = true
			delete(s.byGID, gid)
			s.mu.Unlock()
			l.event <- "done"
		}()
		fn()
	}()
	<-ready
	return s.wait(l, s.Grace)
}

// wait returns the lane's next event, or "running" if it neither parks nor finishes within the
// grace period (it is then blocked on a lock held by a parked lane, or simply slow; Await picks
// the event up later).
func (s *Sched) wait(l *Lane, grace time.Duration) string {
	if grace <= 0 {
		grace = callTimeout
	}
	select {
	case ev := <-l.event:
		return ev
	case <-time.After(grace):
		if grace >= callTimeout {
			return "hang"
		}
		return "running"
	}
}

// Await waits (up to the watchdog time) for the next event of a lane that was reported "running".
func (s *Sched) Await(name string) string {
	s.mu.Lock()
	l := s.lanes[name]
	s.mu.Unlock()
	if l == nil {
		return "no-such-lane"
	}
	s.mu.Lock()
	finished := l.done
	s.mu.Unlock()
	if finished && len(l.event) == 0 {
		return "done"
	}
	return s.wait(l, 0)
}

// Resume lets a parked lane continue to its next armed hook (arm replaces the armed set) or to
// completion.
func (s *Sched) Resume(name string, arm []string) string {
	s.mu.Lock()
	l := s.lanes[name]
	if l == nil || l.parked == "" {
		finished := l != nil && l.done
		s.mu.Unlock()
		if finished {
			return "done"
		}
		return "not-parked"
	}
	l.arm = map[string]bool{}
	for _, a := range arm {
		l.arm[a] = true
	}
	l.parked = ""
	ch := l.resume
	s.mu.Unlock()
	close(ch)
	return s.wait(l, s.Grace)
}

func (s *Sched) Parked(name string) string {
	s.mu.Lock()
	defer s.mu.Unlock()
	if l := s.lanes[name]; l != nil {
		return l.parked
	}
	return ""
}

func (s *Sched) LaneResult(name string) any {
	s.mu.Lock()
	defer s.mu.Unlock()
	if l := s.lanes[name]; l != nil {
		return l.Result
	}
	return nil
}

// Gate arms a gate: background goroutines (not lanes) reaching the hook block until OpenGate.
func (s *Sched) Gate(hook string) {
	s.mu.Lock()
	if s.gates[hook] == nil {
		s.gates[hook] = &gate{open: make(chan struct{})}
	}
	s.mu.Unlock()
}

// WaitGate waits until at least n goroutines are held at the gate.
func (s *Sched) WaitGate(hook string, n int, timeout time.Duration) bool {
	deadline := time.After(timeout)
	for {
		s.mu.Lock()
		g := s.gates[hook]
		ok := g != nil && g.waiting >= n
		s.mu.Unlock()
		if ok {
			return true
		}
		select {
		case <-s.gateCh:
		case <-time.After(20 * time.Millisecond):
		case <-deadline:
			return false
		}
	}
}

func (s *Sched) OpenGate(hook string) {
	s.mu.Lock()
	if g := s.gates[hook]; g != nil {
		close(g.open)
		delete(s.gates, hook)
	}
	s.mu.Unlock()
}

func (s *Sched) Hits(hook string) int {
	s.mu.Lock()
	defer s.mu.Unlock()
	return s.hits[hook]
}
