package h

// The specification: for every write entry point, the set of acceptable outcomes ("alternatives")
// as a function of the key's previous validated state and the call's arguments. Derived from the
// property statements, the sg-bucket interface comments and behaviour pinned by rosmar's own
// tests; where those are silent the set has more than one member (don't-care corners, DESIGN §2.2).

import (
	"bytes"
	"encoding/binary"
	"encoding/json"
	"fmt"
	"reflect"
	"regexp"
	"strconv"
	"strings"

	"github.com/couchbaselabs/rosmar"
)

// XExp: expectation on the xattrs of the post-state.
type XExp struct {
	Free     bool              // anything goes
	Keep     map[string]string // must be byte-identical to these (untouched xattrs)
	Val      map[string]string // must be JSON-value-equal to these (xattrs written by the call)
	UserFree bool              // user (non "_") xattrs listed in Keep may also be gone
}

// Alt is one acceptable outcome of a call.
type Alt struct {
	Name   string
	Errs   []string // acceptable error classes; empty = the call must succeed
	AnyErr bool     // any error class is fine (but it must be an error)
	Same   bool     // the key's state must be unchanged

	Absent       bool // key must not exist afterwards
	BodyNil      bool
	Body         []byte
	BodyJSON     bool // compare body as a JSON value, not bytes
	BodyFree     bool // any non-nil body
	X            XExp
	ExpFree      bool
	ExpLo, ExpHi uint32
	ExpAlso      []uint32 // further acceptable exact values
	RevSame      bool     // (with !Same) revision unchanged -- unused by pinned rows
	CasSame      bool     // touch: CAS unchanged
	CasExact     uint64   // *WithMeta: CAS is the caller's
	Added        *bool
	Ret          func(res Result) string // extra check on returned values; "" = fine
	Event        bool                    // a feed event is expected
	NoRetCas     bool                    // API does not return the new CAS
	Macros       []MacroSpec             // macro expansions to apply to X.Val before comparing
}

func boolp(b bool) *bool { return &b }

func copyMap(m map[string]string) map[string]string {
	o := make(map[string]string, len(m))
	for k, v := range m {
		o[k] = v
	}
	return o
}

func sysOnly(m map[string]string) map[string]string {
	o := map[string]string{}
	for k, v := range m {
		if k != "" && k[0] == '_' {
			o[k] = v
		}
	}
	return o
}

var failCas = []string{"cas", "exists", "missing"}

func casAsString(v uint64) string {
	b := make([]byte, 8)
	binary.LittleEndian.PutUint64(b, v)
	return fmt.Sprintf("0x%x", b)
}

func jsonEqual(a, b []byte) bool {
	var va, vb any
	if json.Unmarshal(a, &va) != nil || json.Unmarshal(b, &vb) != nil {
		return false
	}
	return reflect.DeepEqual(va, vb)
}

func validXattrName(n string) bool { return !strings.ContainsAny(n, "$.[]") }

func validJSON(b []byte) bool { return json.Valid(b) }

func expRange(e ExpSpec, res Result) (lo, hi uint32) {
	switch e.Kind {
	case "", "zero":
		return 0, 0
	case "rel":
		return res.T0 + e.V, res.T1 + e.V
	default:
		return res.ExpArg, res.ExpArg
	}
}

var decimalRe = regexp.MustCompile(`^[0-9]+$`)

var macroSlack int

// docSizeVerdict: -1 definitely fits, +1 definitely too big, 0 too close to call.
func docSizeVerdict(body []byte, x map[string]string) int {
	max := rosmar.MaxDocSize
	if max <= 0 {
		return -1
	}
	n := len(body)
	xs := 0
	for k, v := range x {
		xs += len(k) + len(v) + 4
	}
	if len(x) > 0 {
		xs += 2
	} else {
		xs = 4 // "null"
	}
	total := n + xs
	switch {
	case total+64+macroSlack < max:
		return -1
	case total > max+64+len(x)*8:
		return 1
	}
	return 0
}

// bodyTooBig: the body-only write paths check len(body) > MaxDocSize exactly.
func bodyTooBig(body []byte) bool {
	return rosmar.MaxDocSize > 0 && len(body) > rosmar.MaxDocSize
}

type opFamily struct{ insert, cond, xattr, del, subdoc, touch, meta bool }

func family(op Op) opFamily {
	var f opFamily
	switch op.K {
	case "Add", "AddRaw", "WriteResurrectionWithXattrs":
		f.insert = true
	case "WriteCas":
		f.cond = true
		if op.AddOnly || op.Cas.Kind == "zero" || op.Cas.Kind == "" {
			f.insert = true
		}
		if op.Body == nil {
			f.del = true
		}
	case "Remove":
		f.cond, f.del = true, true
	case "Delete":
		f.del = true
	case "Touch", "GetAndTouchRaw":
		f.touch = true
	case "SetXattrs", "DeleteSubDocPaths":
		f.xattr = true
	case "UpdateXattrs", "RemoveXattrs":
		f.xattr, f.cond = true, true
	case "WriteWithXattrs":
		f.xattr, f.cond = true, true
		if op.Cas.Kind == "zero" || op.Cas.Kind == "" {
			f.insert = true
		}
	case "WriteTombstoneWithXattrs":
		f.xattr, f.cond, f.del = true, true, true
	case "WriteUpdateWithXattrs":
		f.xattr = true
		f.del = op.Tomb
	case "DeleteWithXattrs":
		f.xattr, f.del = true, true
	case "SetWithMeta":
		f.cond, f.meta = true, true
	case "DeleteWithMeta":
		f.cond, f.meta, f.del = true, true, true
	case "WriteSubDoc", "SubdocInsert":
		f.cond, f.subdoc = true, true
	case "Update":
		f.del = op.Cb == "delete"
	}
	return f
}

// applyMacros returns the JSON text an xattr must be equal to after macro expansion, or
// ok=false if the expansion must fail.
func applyMacros(name, text string, macros []MacroSpec, newCas uint64, newBody []byte) (string, bool) {
	var v any
	if json.Unmarshal([]byte(text), &v) != nil {
		return text, false
	}
	m, isMap := v.(map[string]any)
	if !isMap {
		return text, false
	}
	for _, ms := range macros {
		if ms.Path == "" || strings.ContainsAny(ms.Path, "[]\\`") {
			return text, false
		}
		path := strings.Split(ms.Path, ".")
		if path[0] != name {
			continue
		}
		var val string
		if ms.Type == 0 {
			val = casAsString(newCas)
		} else {
			val = crcOf(newBody)
		}
		if len(path) < 2 {
			return text, false
		}
		cur := m
		for _, p := range path[1 : len(path)-1] {
			next, ok := cur[p].(map[string]any)
			if !ok {
				return text, false
			}
			cur = next
		}
		cur[path[len(path)-1]] = val
	}
	out, _ := json.Marshal(m)
	return string(out), true
}

// xattrWrite computes the XExp of a call that sets op.X and deletes del on top of base.
// It returns failErr != "" if the call must fail for xattr reasons instead.
type xattrPlan struct {
	X       XExp
	FailErr []string // if non-nil the call must fail with one of these classes
	Either  bool     // the failure is a don't-care: the success plan is acceptable too
}

func planXattrs(base map[string]string, set map[string]string, del []string, userFree bool) xattrPlan {
	p := xattrPlan{X: XExp{Keep: copyMap(base), Val: map[string]string{}, UserFree: userFree}}
	for _, d := range del {
		if _, ok := p.X.Keep[d]; !ok {
			p.FailErr = []string{"pathnotfound", "other"}
		}
		delete(p.X.Keep, d)
	}
	for k, v := range set {
		delete(p.X.Keep, k)
		p.X.Val[k] = v
	}
	return p
}

// argument validation shared by the xattr family: returns the error classes the call must fail
// with (nil if the arguments are acceptable).
func badXattrArgs(op Op, names []string) []string {
	for _, n := range names {
		if !validXattrName(n) {
			return []string{"other"}
		}
	}
	for _, v := range op.X {
		if !validJSON([]byte(v)) {
			return []string{"other"}
		}
	}
	return nil
}

func allXNames(op Op) []string {
	var names []string
	for k := range op.X {
		names = append(names, k)
	}
	names = append(names, op.XNil...)
	names = append(names, op.XDel...)
	return names
}

func overlap(a map[string]string, nilNames []string, del []string) bool {
	for _, d := range del {
		if _, ok := a[d]; ok {
			return true
		}
		for _, n := range nilNames {
			if n == d {
				return true
			}
		}
	}
	return false
}

// Expect returns the acceptable outcomes of op given the key's previous state p.
func Expect(op Op, p St, res Result) []Alt {
	live, tomb, absent := p.HasBody(), p.Tomb(), !p.Present
	lo, hi := expRange(op.Exp, res)
	cc := res.CasClass
	fail := func(name string, errs ...string) Alt { return Alt{Name: name, Errs: errs, Same: true} }
	anyFail := func(name string) Alt { return Alt{Name: name, AnyErr: true, Same: true} }
	keepOrNone := func() XExp {
		if live {
			return XExp{Keep: copyMap(p.X)}
		}
		return XExp{}
	}
	// a successful plan with macro expansions: the expansion itself must be possible (every
	// xattr written by the call is an object and every macro path has its parent), else the call
	// fails; the expanded values are resolved against the post-state in evalAlt.
	withMacros := func(a Alt) []Alt {
		if len(op.Macros) == 0 {
			return []Alt{a}
		}
		for name, text := range op.X {
			if _, ok := applyMacros(name, text, op.Macros, 0, nil); !ok {
				return []Alt{{Name: "macro-fail", AnyErr: true, Same: true}}
			}
		}
		a.Name += "+macros"
		a.Macros = op.Macros
		return []Alt{a}
	}

	switch op.K {
	case "Add", "AddRaw":
		if bodyTooBig(op.Body) {
			return []Alt{fail("toobig", "toobig")}
		}
		if live {
			return []Alt{{Name: "refused", Same: true, Added: boolp(false)}}
		}
		return []Alt{{Name: "added", Added: boolp(true), Body: op.Body, ExpLo: lo, ExpHi: hi, Event: true, NoRetCas: true}}

	case "Set", "SetRaw":
		if bodyTooBig(op.Body) {
			return []Alt{fail("toobig", "toobig")}
		}
		a := Alt{Name: "ok", Body: op.Body, X: keepOrNone(), ExpLo: lo, ExpHi: hi, Event: true, NoRetCas: true}
		if op.PreserveExp && !op.NilOpts && p.Present {
			if live {
				a.ExpLo, a.ExpHi = p.Exp, p.Exp
			} else {
				a.ExpAlso = []uint32{p.Exp}
			}
		}
		return []Alt{a}

	case "WriteCas":
		if bodyTooBig(op.Body) {
			return []Alt{fail("toobig", "toobig")}
		}
		switch {
		case op.Append:
			if live && cc == "current" {
				nb := append(append([]byte{}, p.Body...), op.Body...)
				return []Alt{{Name: "appended", Body: nb, X: XExp{Keep: copyMap(p.X)}, ExpLo: lo, ExpHi: hi, Event: true}}
			}
			return []Alt{fail("append-refused", failCas...)}
		case op.Body == nil:
			// delete through WriteCas
			tombAlt := Alt{Name: "tombstoned", BodyNil: true, X: XExp{Keep: copyMap(p.X), UserFree: true}, ExpFree: true, Event: true}
			switch {
			case p.Present && cc == "current":
				if !live {
					tombAlt.X = XExp{Free: true} // re-deleting a tombstone: only coherence is required
				}
				return []Alt{tombAlt}
			case cc == "zero" && !live:
				tombAlt.X = XExp{Free: true}
				return []Alt{tombAlt, anyFail("refused")}
			default:
				return []Alt{fail("refused", failCas...)}
			}
		case op.AddOnly || cc == "zero":
			if live {
				return []Alt{fail("insert-refused", "exists", "cas")}
			}
			ok := Alt{Name: "inserted", Body: op.Body, ExpLo: lo, ExpHi: hi, Event: true}
			if absent && cc != "zero" {
				return []Alt{ok, fail("insert-missing", failCas...)}
			}
			return []Alt{ok}
		default:
			if p.Present && cc == "current" {
				return []Alt{{Name: "replaced", Body: op.Body, X: keepOrNone(), ExpLo: lo, ExpHi: hi, Event: true}}
			}
			return []Alt{fail("cas-refused", failCas...)}
		}

	case "Remove", "Delete":
		if absent {
			return []Alt{fail("missing", "missing")}
		}
		if op.K == "Remove" && cc != "current" {
			return []Alt{fail("cas-refused", failCas...)}
		}
		if live {
			return []Alt{{Name: "deleted", BodyNil: true, X: XExp{Keep: sysOnly(p.X)}, ExpLo: 0, ExpHi: 0, Event: true, NoRetCas: op.K == "Delete"}}
		}
		return []Alt{
			{Name: "re-deleted", BodyNil: true, X: XExp{Keep: sysOnly(p.X), UserFree: true}, ExpFree: true, Event: true, NoRetCas: op.K == "Delete"},
			fail("already-deleted", "missing"),
		}

	case "Touch", "GetAndTouchRaw":
		if !live {
			return []Alt{fail("missing", "missing")}
		}
		return []Alt{{Name: "touched", Body: p.Body, X: XExp{Keep: copyMap(p.X)}, ExpLo: lo, ExpHi: hi, CasSame: true,
			Ret: func(r Result) string {
				if r.Cas != p.Cas {
					return fmt.Sprintf("returned cas %#x, document cas is %#x", r.Cas, p.Cas)
				}
				if op.K == "GetAndTouchRaw" && !bytes.Equal(r.Val, p.Body) {
					return fmt.Sprintf("returned value %q, document body is %q", r.Val, p.Body)
				}
				return ""
			}}}

	case "Incr":
		var want uint64
		if live {
			switch {
			case decimalRe.Match(p.Body):
				n, err := strconv.ParseUint(string(p.Body), 10, 64)
				if err != nil {
					return []Alt{anyFail("overflow")}
				}
				want = n + op.Amt
			default:
				var probe uint64
				if json.Unmarshal(p.Body, &probe) == nil {
					// exotic numeric spelling: either outcome
					want = probe + op.Amt
					ws := []byte(strconv.FormatUint(want, 10))
					return []Alt{anyFail("non-decimal"), {Name: "incremented", Body: ws, X: XExp{Keep: copyMap(p.X)}, ExpLo: lo, ExpHi: hi, Event: true, NoRetCas: true}}
				}
				return []Alt{anyFail("non-numeric")}
			}
		} else {
			want = op.Def
		}
		ws := []byte(strconv.FormatUint(want, 10))
		return []Alt{{Name: "incremented", Body: ws, X: keepOrNone(), ExpLo: lo, ExpHi: hi, Event: true, NoRetCas: true,
			Ret: func(r Result) string {
				if r.Num != want {
					return fmt.Sprintf("Incr returned %d, want %d", r.Num, want)
				}
				return ""
			}}}

	case "Update":
		var shown []byte
		if live {
			shown = p.Body
		}
		cbCheck := func(r Result) string {
			if len(r.Cb) == 0 {
				return "callback never invoked"
			}
			last := r.Cb[len(r.Cb)-1]
			if !bytes.Equal(last.Body, shown) || (last.Body == nil) != (shown == nil) {
				return fmt.Sprintf("callback was shown %q, current body is %q", last.Body, shown)
			}
			return ""
		}
		elo, ehi := lo, hi
		if op.CbExp != nil {
			elo, ehi = expRange(*op.CbExp, Result{T0: res.T0, T1: res.T1, ExpArg: res.CbExpArg})
		}
		switch op.Cb {
		case "error":
			return []Alt{{Name: "cb-error", AnyErr: true, Same: true, Ret: cbCheck}}
		case "cancel":
			return []Alt{{Name: "cb-cancel", Same: true, Ret: cbCheck}}
		case "set", "retry":
			if bodyTooBig(op.Body) {
				return []Alt{fail("toobig", "toobig")}
			}
			return []Alt{{Name: "updated", Body: op.Body, X: keepOrNone(), ExpLo: elo, ExpHi: ehi, Event: true, Ret: cbCheck}}
		case "expOnly":
			if !live {
				// rewriting "no body" with a new expiry: don't-care corner
				return []Alt{{Name: "exp-on-nothing", BodyNil: true, X: XExp{Free: true}, ExpFree: true, Event: true, Ret: cbCheck}, anyFail("refused"), {Name: "noop", Same: true}}
			}
			return []Alt{{Name: "exp-updated", Body: p.Body, X: XExp{Keep: copyMap(p.X)}, ExpLo: elo, ExpHi: ehi, Event: true, Ret: cbCheck}}
		case "delete":
			t := Alt{Name: "deleted", BodyNil: true, X: XExp{Keep: copyMap(p.X), UserFree: true}, ExpFree: true, Event: true, Ret: cbCheck}
			if !live {
				t.X = XExp{Free: true}
				return []Alt{t, anyFail("refused")}
			}
			return []Alt{t}
		}

	case "SetXattrs":
		if bad := badXattrArgs(op, allXNames(op)); bad != nil {
			return []Alt{anyFail("badarg")}
		}
		plan := planXattrs(p.X, op.X, op.XNil, false)
		if plan.FailErr != nil {
			return []Alt{fail("xattr-missing", plan.FailErr...)}
		}
		if absent {
			return []Alt{{Name: "created-xattr-only", BodyNil: true, X: plan.X, ExpLo: 0, ExpHi: 0, Event: true}, anyFail("refused")}
		}
		a := Alt{Name: "xattrs-set", Body: p.Body, BodyNil: p.Body == nil, X: plan.X, ExpLo: p.Exp, ExpHi: p.Exp, Event: true}
		return sizeGate(a, p.Body, plan.X.Keep, op.X)

	case "UpdateXattrs":
		return withMacrosAll(expectUpdateXattrs(op, p, res, lo, hi, cc), withMacros)

	case "RemoveXattrs":
		if bad := badXattrArgs(op, op.XDel); bad != nil {
			return []Alt{fail("badarg", bad...)}
		}
		if absent {
			return []Alt{anyFail("missing")}
		}
		if cc != "current" {
			return []Alt{fail("cas-refused", failCas...)}
		}
		plan := planXattrs(p.X, nil, op.XDel, false)
		if plan.FailErr != nil {
			return []Alt{fail("xattr-missing", plan.FailErr...)}
		}
		return sizeGate(Alt{Name: "xattrs-removed", Body: p.Body, BodyNil: p.Body == nil, X: plan.X, ExpLo: p.Exp, ExpHi: p.Exp, Event: true, NoRetCas: true}, p.Body, plan.X.Keep, nil)

	case "DeleteSubDocPaths":
		if absent {
			return []Alt{fail("missing", "missing")}
		}
		keep := copyMap(p.X)
		for _, d := range op.XDel {
			delete(keep, d)
		}
		ok := Alt{Name: "paths-deleted", Body: p.Body, BodyNil: p.Body == nil, X: XExp{Keep: keep}, ExpLo: p.Exp, ExpHi: p.Exp, Event: true, NoRetCas: true}
		if badXattrArgs(op, op.XDel) != nil {
			return []Alt{anyFail("badarg"), ok}
		}
		return []Alt{ok}

	case "WriteWithXattrs":
		return withMacrosAll(expectWriteWithXattrs(op, p, res, lo, hi, cc), withMacros)

	case "WriteTombstoneWithXattrs":
		return withMacrosAll(expectWriteTombstone(op, p, res, lo, hi, cc, op.DeleteBody), withMacros)

	case "WriteResurrectionWithXattrs":
		return withMacrosAll(expectResurrection(op, p, res, lo, hi), withMacros)

	case "DeleteWithXattrs":
		if absent {
			return []Alt{fail("missing", "missing")}
		}
		keep := copyMap(p.X)
		for _, d := range op.XDel {
			delete(keep, d)
		}
		// (a delete clears the expiry, through this entry point as through every other: C05, C14)
		ok := Alt{Name: "deleted-with-xattrs", BodyNil: true, X: XExp{Keep: keep, UserFree: true}, ExpLo: 0, ExpHi: 0, Event: true, NoRetCas: true}
		alts := []Alt{ok}
		if badXattrArgs(op, op.XDel) != nil {
			alts = append(alts, anyFail("badarg"))
		}
		if tomb {
			alts = append(alts, fail("already-deleted", "missing"))
		}
		return alts

	case "WriteUpdateWithXattrs":
		if op.Cb == "error" {
			return []Alt{{Name: "cb-error", AnyErr: true, Same: true}}
		}
		// the call is equivalent to one of the three xattr writes applied with the current CAS
		sub := op
		sub.Exp = ExpSpec{Kind: "zero"}
		sres := res
		cbExp := op.CbExp != nil && !(op.CbExpOnce && len(res.Cb) > 1) // (the applied attempt is the last one)
		if cbExp {
			sub.Exp = *op.CbExp
			sres.ExpArg = res.CbExpArg
		}
		slo, shi := expRange(sub.Exp, sres)
		scc := "zero"
		if p.Present {
			scc = "current"
		}
		var alts []Alt
		switch {
		case op.Tomb:
			alts = expectWriteTombstone(sub, p, sres, slo, shi, scc, p.Body != nil)
		case tomb:
			if len(op.XDel) > 0 {
				return []Alt{{Name: "delete-xattr-on-resurrection", AnyErr: true, Same: true}}
			}
			alts = expectResurrection(sub, p, sres, slo, shi)
		default:
			alts = expectWriteWithXattrs(sub, p, sres, slo, shi, scc)
		}
		cbCheck := func(r Result) string {
			if len(r.Cb) == 0 {
				return "callback never invoked"
			}
			last := r.Cb[len(r.Cb)-1]
			if last.Cas != p.Cas && op.Prev != "stale" {
				return fmt.Sprintf("callback was shown cas %#x on its last invocation, current cas is %#x", last.Cas, p.Cas)
			}
			if !bytes.Equal(last.Body, p.Body) || (last.Body == nil) != (p.Body == nil) {
				return fmt.Sprintf("callback was shown body %q, current body is %q", last.Body, p.Body)
			}
			for _, k := range op.XKeys {
				if last.X[k] != p.X[k] {
					return fmt.Sprintf("callback was shown xattr %s=%q, current is %q", k, last.X[k], p.X[k])
				}
			}
			return ""
		}
		for i := range alts {
			if !alts[i].Same {
				alts[i].Ret = cbCheck
				if !cbExp && !alts[i].ExpFree {
					// the exp argument is accepted as the default too (interface comment vs code)
					l2, h2 := expRange(op.Exp, res)
					if l2 == h2 {
						alts[i].ExpAlso = append(alts[i].ExpAlso, l2)
					} else {
						alts[i].ExpFree = true
					}
				}
			}
		}
		alts = withMacrosAll(alts, withMacros)
		if op.Prev == "stale" {
			// a wrong `previous` is the caller's mistake: a clean refusal is acceptable too
			alts = append(alts, anyFail("stale-previous"))
		}
		return alts

	case "SetWithMeta", "DeleteWithMeta":
		want := uint64(0)
		if p.Present {
			want = p.Cas
		}
		if res.CasArg != want {
			return []Alt{fail("cas-refused", failCas...)}
		}
		if op.MetaCas == "huge" {
			// a CAS of 2^63 or more cannot be stored: any error, nothing changed, nothing announced
			return []Alt{{Name: "meta-refused", AnyErr: true, Same: true}}
		}
		a := Alt{Name: "meta-written", Body: op.Body, BodyNil: op.K == "DeleteWithMeta", X: XExp{Keep: copyMap(op.X)}, ExpLo: res.ExpArg, ExpHi: res.ExpArg, CasExact: res.MetaCasArg, Event: true, NoRetCas: true}
		return []Alt{a}

	case "WriteSubDoc", "SubdocInsert":
		return expectSubdoc(op, p, res, cc)
	}
	panic("Expect: unknown op " + op.K)
}

func expectUpdateXattrs(op Op, p St, res Result, lo, hi uint32, cc string) []Alt {
	absent := !p.Present
	fail := func(name string, errs ...string) Alt { return Alt{Name: name, Errs: errs, Same: true} }
	anyFail := func(name string) Alt { return Alt{Name: name, AnyErr: true, Same: true} }
	if bad := badXattrArgs(op, allXNames(op)); bad != nil {
		return []Alt{anyFail("badarg")}
	}
	if len(op.XNil) > 0 {
		return []Alt{anyFail("nil-xattr"), {Name: "whatever", X: XExp{Free: true}, ExpFree: true, Body: p.Body, BodyNil: p.Body == nil, Event: true}}
	}
	plan := planXattrs(p.X, op.X, nil, false)
	if absent {
		if cc == "zero" {
			return []Alt{{Name: "created-xattr-only", BodyNil: true, X: plan.X, ExpLo: lo, ExpHi: hi, Event: true}, anyFail("refused")}
		}
		return []Alt{fail("cas-refused", failCas...)}
	}
	if cc != "current" {
		return []Alt{fail("cas-refused", failCas...)}
	}
	a := Alt{Name: "xattrs-updated", Body: p.Body, BodyNil: p.Body == nil, X: plan.X, ExpLo: lo, ExpHi: hi, Event: true}
	if op.PreserveExp && !op.NilOpts {
		a.ExpAlso = []uint32{p.Exp}
	}
	return sizeGate(a, p.Body, p.X, op.X)

}

func withMacrosAll(alts []Alt, f func(Alt) []Alt) []Alt {
	var out []Alt
	for _, a := range alts {
		if a.Same {
			out = append(out, a)
			continue
		}
		out = append(out, f(a)...)
	}
	return out
}

// macrosCannotExpand: every xattr written by a call that carries macro specs must be an object and
// every macro path must have its parent; otherwise the call fails.
func macrosCannotExpand(op Op) bool {
	if len(op.Macros) == 0 {
		return false
	}
	for name, text := range op.X {
		if _, ok := applyMacros(name, text, op.Macros, 0, nil); !ok {
			return true
		}
	}
	return false
}

// ExpectAll wraps Expect: when macro expansion must fail, every outcome is "some error, nothing
// changed" (the expansion error and any other refusal may come in either order).
func ExpectAll(op Op, p St, res Result) []Alt {
	macroSlack = 48 * len(op.Macros) // expanded macros make the stored xattrs longer than the arguments
	alts := Expect(op, p, res)
	macroSlack = 0
	if macrosCannotExpand(op) && !(op.K == "WriteUpdateWithXattrs" && op.Cb == "error") {
		var out []Alt
		for _, a := range alts {
			if a.Same {
				a.AnyErr = a.AnyErr || len(a.Errs) > 0
				out = append(out, a)
			}
		}
		out = append(out, Alt{Name: "macro-fail", AnyErr: true, Same: true})
		return out
	}
	return alts
}

// sizeGate adds / substitutes the too-big outcome where the document size is near MaxDocSize.
func sizeGate(a Alt, body []byte, base map[string]string, set map[string]string) []Alt {
	all := copyMap(base)
	for k, v := range set {
		all[k] = v
	}
	switch docSizeVerdict(body, all) {
	case 1:
		return []Alt{{Name: "toobig", Errs: []string{"toobig"}, Same: true}}
	case 0:
		return []Alt{a, {Name: "toobig?", Errs: []string{"toobig"}, Same: true}}
	}
	return []Alt{a}
}

func apiArgErrors(op Op, casZero bool, needX bool) []string {
	// order-insensitive: any of these makes the call fail with an argument error
	if len(op.XNil) > 0 {
		return []string{"badarg"}
	}
	if casZero && (len(op.XDel) > 0) {
		return []string{"badarg"}
	}
	if needX && len(op.X) == 0 {
		return []string{"badarg"}
	}
	if overlap(op.X, nil, op.XDel) {
		return []string{"badarg"}
	}
	return nil
}

func expectWriteWithXattrs(op Op, p St, res Result, lo, hi uint32, cc string) []Alt {
	live, tomb, absent := p.HasBody(), p.Tomb(), !p.Present
	fail := func(name string, errs ...string) Alt { return Alt{Name: name, Errs: errs, Same: true} }
	if e := apiArgErrors(op, cc == "zero", false); e != nil {
		return []Alt{fail("badarg", e...)}
	}
	if len(op.Body) == 0 && len(op.X) == 0 {
		return []Alt{fail("need-xattrs", "badarg")}
	}
	if bad := badXattrArgs(op, allXNames(op)); bad != nil {
		return []Alt{fail("badarg", bad...)}
	}
	expLo, expHi := lo, hi
	preserve := op.PreserveExp && !op.NilOpts
	switch {
	case absent:
		if cc != "zero" {
			return []Alt{fail("cas-refused", failCas...)}
		}
		plan := planXattrs(nil, op.X, op.XDel, false)
		if plan.FailErr != nil {
			return []Alt{fail("xattr-missing", plan.FailErr...)}
		}
		if preserve {
			expLo, expHi = 0, 0
		}
		return sizeGate(Alt{Name: "inserted", Body: op.Body, BodyNil: op.Body == nil, X: plan.X, ExpLo: expLo, ExpHi: expHi, Event: true}, op.Body, nil, op.X)
	case tomb && op.Body != nil:
		return []Alt{fail("body-on-tombstone", failCas...)}
	case cc != "current":
		return []Alt{fail("cas-refused", failCas...)}
	}
	plan := planXattrs(p.X, op.X, op.XDel, false)
	if plan.FailErr != nil {
		return []Alt{fail("xattr-missing", plan.FailErr...)}
	}
	a := Alt{Name: "written", Body: p.Body, BodyNil: p.Body == nil, X: plan.X, ExpLo: expLo, ExpHi: expHi, Event: true}
	if op.Body != nil {
		a.Body, a.BodyNil = op.Body, false
	}
	if preserve {
		a.ExpLo, a.ExpHi = p.Exp, p.Exp
		if !live {
			a.ExpAlso = []uint32{lo, hi}
		}
	}
	return sizeGate(a, a.Body, plan.X.Keep, op.X)
}

func expectWriteTombstone(op Op, p St, res Result, lo, hi uint32, cc string, deleteBody bool) []Alt {
	tomb, absent := p.Tomb(), !p.Present
	fail := func(name string, errs ...string) Alt { return Alt{Name: name, Errs: errs, Same: true} }
	if e := apiArgErrors(op, cc == "zero", true); e != nil {
		return []Alt{fail("badarg", e...)}
	}
	if bad := badXattrArgs(op, allXNames(op)); bad != nil {
		return []Alt{fail("badarg", bad...)}
	}
	if absent {
		if deleteBody || cc != "zero" {
			return []Alt{fail("missing", failCas...)}
		}
		plan := planXattrs(nil, op.X, op.XDel, false)
		if plan.FailErr != nil {
			return []Alt{fail("xattr-missing", plan.FailErr...)}
		}
		return sizeGate(Alt{Name: "tombstone-created", BodyNil: true, X: plan.X, ExpLo: lo, ExpHi: hi, Event: true}, nil, nil, op.X)
	}
	if tomb && deleteBody {
		return []Alt{fail("no-body-to-delete", failCas...)}
	}
	if cc != "current" {
		return []Alt{fail("cas-refused", failCas...)}
	}
	base := sysOnly(p.X)
	plan := planXattrs(base, op.X, op.XDel, false)
	a := Alt{Name: "tombstoned", BodyNil: true, X: plan.X, ExpLo: lo, ExpHi: hi, Event: true}
	if op.PreserveExp && !op.NilOpts {
		a.ExpAlso = []uint32{p.Exp}
	}
	if plan.FailErr != nil {
		// deleting an xattr that is not there; if it is a user xattr that the tombstoning itself
		// removes, either outcome is acceptable
		userOnly := true
		for _, d := range op.XDel {
			if _, had := p.X[d]; !had || (d != "" && d[0] == '_') {
				if _, had := base[d]; !had {
					if _, hadAny := p.X[d]; !hadAny {
						userOnly = false
					}
				}
			}
		}
		if userOnly {
			return []Alt{fail("xattr-missing", plan.FailErr...), a}
		}
		return []Alt{fail("xattr-missing", plan.FailErr...)}
	}
	return sizeGate(a, nil, plan.X.Keep, op.X)
}

func expectResurrection(op Op, p St, res Result, lo, hi uint32) []Alt {
	fail := func(name string, errs ...string) Alt { return Alt{Name: name, Errs: errs, Same: true} }
	if op.Body == nil {
		return []Alt{fail("need-body", "badarg")}
	}
	if len(op.XNil) > 0 {
		return []Alt{fail("badarg", "badarg")}
	}
	if bad := badXattrArgs(op, allXNames(op)); bad != nil {
		return []Alt{fail("badarg", bad...)}
	}
	if p.HasBody() {
		return []Alt{fail("exists", "exists", "cas")}
	}
	plan := planXattrs(nil, op.X, nil, false)
	a := Alt{Name: "resurrected", Body: op.Body, X: plan.X, ExpLo: lo, ExpHi: hi, Event: true}
	if op.PreserveExp && !op.NilOpts {
		a.ExpLo, a.ExpHi = p.Exp, p.Exp // 0 when absent
		if p.Present {
			a.ExpAlso = []uint32{lo, hi}
		}
	}
	return sizeGate(a, op.Body, nil, op.X)
}

// ---- sub-document reference ----------------------------------------------------------------

func subdocPathOK(path string) bool {
	return path != "" && !strings.ContainsAny(path, "[]\\`")
}

func expectSubdoc(op Op, p St, res Result, cc string) []Alt {
	fail := func(name string, errs ...string) Alt { return Alt{Name: name, Errs: errs, Same: true} }
	insert := op.K == "SubdocInsert"
	if !subdocPathOK(op.Path) {
		return []Alt{{Name: "bad-path", AnyErr: true, Same: true}}
	}
	var val any
	if len(op.Body) > 0 {
		if json.Unmarshal(op.Body, &val) != nil {
			return []Alt{{Name: "bad-value", AnyErr: true, Same: true}}
		}
	}
	var doc map[string]any
	switch {
	case p.HasBody():
		var v any
		if json.Unmarshal(p.Body, &v) != nil {
			return []Alt{{Name: "not-json", AnyErr: true, Same: true}}
		}
		m, ok := v.(map[string]any)
		if !ok {
			if v == nil {
				// body "null": unmarshals into a nil map; either outcome
				return []Alt{{Name: "null-doc", AnyErr: true, Same: true}, {Name: "null-doc-written", X: XExp{Free: true}, ExpFree: true, BodyFree: true, Event: true}}
			}
			return []Alt{{Name: "not-object", AnyErr: true, Same: true}}
		}
		doc = m
	default:
		if insert {
			return []Alt{fail("missing", "missing")}
		}
		doc = map[string]any{}
	}
	if cc != "zero" && cc != "current" {
		return []Alt{fail("cas-refused", failCas...)}
	}
	if cc == "current" && !p.Present {
		return []Alt{fail("cas-refused", failCas...)}
	}
	path := strings.Split(op.Path, ".")
	parent := doc
	for _, comp := range path[:len(path)-1] {
		next, ok := parent[comp]
		if !ok || next == nil {
			return []Alt{fail("path-not-found", "pathnotfound", "pathmismatch")}
		}
		nm, ok := next.(map[string]any)
		if !ok {
			return []Alt{fail("path-mismatch", "pathmismatch", "pathnotfound")}
		}
		parent = nm
	}
	last := path[len(path)-1]
	if insert {
		if cur, ok := parent[last]; ok {
			if cur != nil {
				return []Alt{fail("path-exists", "pathexists")}
			}
			// existing property with value null: either outcome (handled below)
		}
	}
	hadNull := false
	if cur, ok := parent[last]; ok && cur == nil {
		hadNull = true
	}
	if val != nil {
		parent[last] = val
	} else {
		delete(parent, last)
	}
	nb, _ := json.Marshal(doc)
	x := XExp{}
	if p.HasBody() {
		x = XExp{Keep: copyMap(p.X)}
	}
	a := Alt{Name: "subdoc-written", Body: nb, BodyJSON: true, X: x, ExpFree: true, Event: true, NoRetCas: insert}
	if rosmar.MaxDocSize > 0 && len(nb) > rosmar.MaxDocSize-24 {
		// the implementation re-marshals the document; sizes near the limit can go either way
		if len(nb) > rosmar.MaxDocSize+24 {
			return []Alt{fail("toobig", "toobig")}
		}
		return []Alt{a, fail("toobig?", "toobig")}
	}
	if insert && hadNull {
		return []Alt{a, fail("path-exists", "pathexists")}
	}
	return []Alt{a}
}
