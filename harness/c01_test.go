package h

import "testing"

// C01 — read-after-write for every entry point.
func TestC01(t *testing.T) {
	pr := &Profile{
		SmallDocs: true, BadArgs: 8, Reopen: 1, Purge: 1, Stable: 1, MultiHandle: true,
	}
	seqProperty(t, "C01", "TestC01", pr, 1500,
		"rapid model-based histories over every write entry point; non-trivial = the history writes a key whose previous writer was a different entry point while the key was not absent, and contains at least one failing operation; distinct by the sequence of <op, prior-state class, CAS class, outcome>",
		func(r *Run) bool {
			cross, failed := false, false
			last := map[string]string{}
			for _, tr := range r.Trace {
				if tr.Op.Key == "" {
					continue
				}
				id := string(rune('0'+tr.Op.C)) + tr.Op.Key
				if tr.Err != "" {
					failed = true
				} else {
					if prev, ok := last[id]; ok && prev != tr.Op.K && tr.Prior != "absent" {
						cross = true
					}
					last[id] = tr.Op.K
				}
			}
			return cross && failed
		})
}

func maxSteps(quick, thorough int) int {
	if tier() == "thorough" {
		return thorough
	}
	return quick
}
