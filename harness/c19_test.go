package h

import (
	"testing"

	"pgregory.net/rapid"
)

// C19 — SQL queries see exactly the live documents of their collection.
func TestC19(t *testing.T) {
	nontriv := false
	pr := &Profile{
		Ops: scale(allDocOps, map[string]int{"Set": 12, "Add": 8, "Delete": 10, "WriteCas": 10, "SetRaw": 5, "AddRaw": 4,
			"WriteWithXattrs": 8, "SetXattrs": 5, "WriteTombstoneWithXattrs": 4, "Update": 6}),
		MultiHandle: true, Purge: 2, Reopen: 1,
		JSONBody: genViewBody,
		Config: func(rt *rapid.T, c *Config) {
			if len(c.Colls) < 2 && chance(rt, 80, "c19.morecolls") {
				c.Colls = append([]string{}, allCollNames[:2]...)
			}
			c.MaxDocSize = 0
		},
		// one history in ten starts with 17-230 documents in one collection: more rows than any read-ahead
		// buffer, page or batch a query path might use
		Prefix: func(rt *rapid.T, r *Run) []Op {
			if !chance(rt, 10, "c19.bulk") {
				return nil
			}
			return []Op{{K: "BulkSet", C: pickColl(rt, r.W, "c19.bulkcoll"), Arg: map[string]any{"n": pick(rt, []int{17, 18, 33, 40, 120, 230}, "c19.bulkn")}}}
		},
		Extra: []ExtraAction{{Name: "Query", Weight: 14, Gen: func(rt *rapid.T, r *Run) (Op, bool) {
			op, ok := genQuery(rt, r)
			if ok && c19NonTrivial(r, op.C) {
				nontriv = true
			}
			return op, ok
		}}},
	}
	seqProperty(t, "C19", "TestC19", pr, 1500,
		"rapid histories over 1-3 collections sharing key names, on memory and disk buckets, with queries from a family (all rows, id = / LIKE / IN, COUNT(*), body property equality and numeric comparison, xattr property comparison; ordered or not; consumed by NextBytes / Next / One / early Close) placed anywhere; each result is compared, as a list or multiset of (id, body bytes, xattrs), with the same predicate evaluated in Go over the model's read-back; non-trivial = a query runs while its collection holds at least one tombstone and one resurrected document and a sibling collection holds a live document under a key of the queried collection; distinct by <op, prior class, CAS class, outcome> sequence",
		func(r *Run) bool {
			nt := nontriv
			nontriv = false
			return nt
		})
}

func c19NonTrivial(r *Run, ci int) bool {
	m := r.W.Model
	tomb, res, sibling := false, false, false
	for k, ki := range m.Colls[ci].Docs {
		if ki.St.Tomb() {
			tomb = true
		}
		if ki.St.HasBody() && len(ki.Resurrects) > 0 {
			res = true
		}
		for cj := range m.Colls {
			if cj != ci && m.Get(cj, k).HasBody() {
				sibling = true
			}
		}
	}
	return tomb && res && sibling
}
