package h

// C04 — CAS values are unique and strictly increasing, whatever the clock does.

import (
	"encoding/json"
	"fmt"
	"os"
	"sort"
	"sync"
	"testing"
	"time"

	"github.com/couchbaselabs/rosmar"
	"pgregory.net/rapid"
)

// genClockScript: readings relative to a base, including equal, decreasing and jumping ones.
func genClockScript(rt *rapid.T, n int) []int64 {
	out := make([]int64, n)
	var cur int64
	for i := range out {
		switch rapid.IntRange(0, 9).Draw(rt, "clock.step") {
		case 0, 1:
			// stands still
		case 2:
			cur -= int64(rapid.IntRange(1, 0x30000).Draw(rt, "clock.back"))
		case 3:
			cur -= int64(time.Hour)
		case 4:
			cur += 1
		case 5:
			cur += int64(rapid.IntRange(1, 0xFFFF).Draw(rt, "clock.low16"))
		case 6:
			cur += 0x10000
		case 7:
			cur += int64(rapid.IntRange(1, 5000000).Draw(rt, "clock.fwd"))
		case 8:
			cur += int64(time.Hour)
		case 9:
			cur = 0
		}
		out[i] = cur
	}
	return out
}

type clockCase struct {
	Base    uint64  `json:"base"`
	Last    uint64  `json:"last"` // persisted high-water mark the clock is seeded with
	Offsets []int64 `json:"offsets"`
	Workers int     `json:"workers"`
}

func runClockCase(c clockCase) []Deviation {
	var devs []Deviation
	bad := func(clause, f string, a ...any) {
		devs = append(devs, Deviation{Clause: clause, Props: []string{"C04"}, Sig: clause, Msg: fmt.Sprintf(f, a...)})
	}
	var mu sync.Mutex
	idx := 0
	clock := func() uint64 {
		mu.Lock()
		defer mu.Unlock()
		off := c.Offsets[idx%len(c.Offsets)]
		idx++
		return uint64(int64(c.Base) + off)
	}
	hlc := rosmar.VerifNewHLC(rosmar.Timestamp(c.Last), clock)
	total := len(c.Offsets)
	if c.Workers <= 1 {
		prev := c.Last
		for i := 0; i < total; i++ {
			ts := uint64(hlc.Now())
			if ts <= prev {
				bad("hlc.monotonic", "Now() #%d returned %#x, not greater than the previous %#x (clock readings: base %#x offsets %v, seeded with %#x)", i, ts, prev, c.Base, c.Offsets, c.Last)
				return devs
			}
			prev = ts
		}
		return devs
	}
	results := make([][]uint64, c.Workers)
	var wg sync.WaitGroup
	per := total / c.Workers
	if per < 1 {
		per = 1
	}
	for w := 0; w < c.Workers; w++ {
		wg.Add(1)
		go func(w int) {
			defer wg.Done()
			for i := 0; i < per; i++ {
				results[w] = append(results[w], uint64(hlc.Now()))
			}
		}(w)
	}
	wg.Wait()
	seen := map[uint64]bool{}
	for w, rs := range results {
		for i, ts := range rs {
			if seen[ts] {
				bad("hlc.unique", "timestamp %#x handed out twice under %d concurrent callers", ts, c.Workers)
				return devs
			}
			seen[ts] = true
			if ts <= c.Last {
				bad("hlc.seed", "timestamp %#x is not above the persisted high-water mark %#x", ts, c.Last)
			}
			if i > 0 && ts <= rs[i-1] {
				bad("hlc.monotonic", "caller %d got %#x after %#x", w, ts, rs[i-1])
				return devs
			}
		}
	}
	return devs
}

func TestC04Clock(t *testing.T) {
	st := statsFor("C04", "TestC04Clock")
	st.Rule = "generated clock scripts (standing still, going back by < 2^16 ns / by an hour, +1, differing only in the low 16 bits, +2^16, jumps forward, reset to the base, near 2^63) fed to a HybridLogicalClock seeded with a generated persisted high-water mark (below / inside / above the readings), read by 1-16 concurrent callers; every timestamp is greater than the previous one of the same caller and than the seed, and no timestamp is handed out twice; non-trivial = the script contains a non-increasing pair of readings; distinct by script"
	run := func(c clockCase) []Deviation { return runClockCase(c) }
	if replayMode() {
		rp := loadReplay("TestC04Clock")
		if rp == nil {
			t.Skip("replay file is for another test")
		}
		var c clockCase
		if err := json.Unmarshal(rp.Extra, &c); err != nil {
			t.Fatal(err)
		}
		for i := 0; i < 20; i++ {
			if ds := run(c); len(ds) > 0 {
				t.Fatalf("property C04 violated by replay:%s", devText(ds))
			}
		}
		st.Case(1, true, func() any { return c })
		return
	}
	var once sync.Once
	rapid.Check(t, func(rt *rapid.T) {
		c := clockCase{Workers: pick(rt, []int{1, 1, 1, 2, 4, 16}, "workers")}
		c.Base = pick(rt, []uint64{uint64(time.Now().UnixNano()), 1 << 40, 1<<63 - uint64(2*time.Hour), 0x10000, 1 << 62}, "base")
		c.Offsets = genClockScript(rt, rapid.IntRange(2, 60).Draw(rt, "n"))
		min := int64(0)
		for _, o := range c.Offsets {
			if o < min {
				min = o
			}
		}
		if int64(c.Base)+min < 0 {
			c.Base = uint64(-min) + 0x20000
		}
		switch rapid.IntRange(0, 3).Draw(rt, "seed") {
		case 0:
			c.Last = 0
		case 1:
			c.Last = c.Base - 1
		case 2:
			c.Last = c.Base + uint64(time.Hour)
		case 3:
			c.Last = c.Base + 5
		}
		nonInc := false
		for i := 1; i < len(c.Offsets); i++ {
			if c.Offsets[i] <= c.Offsets[i-1] {
				nonInc = true
			}
		}
		b, _ := json.Marshal(c)
		st.Case(fnvString(string(b)), nonInc, func() any { return c })
		st.Label("workers", fmt.Sprint(c.Workers))
		if ds := run(c); len(ds) > 0 {
			once.Do(func() {
				saveReplay(&Replay{Property: "C04", Test: "TestC04Clock", Extra: b, Expect: ds})
				st.Violations++
			})
			rt.Fatalf("property C04 violated (replay %s):%s", replayPath("C04", "TestC04Clock"), devText(ds))
		}
	})
}

// ---- bucket level: several buckets in one process under a scripted global clock -------------------

func TestC04Bucket(t *testing.T) {
	// (*WithMeta is not "the regular write API": a caller-supplied CAS next to a frozen clock can
	// coincide with the next value the clock hands out, which says nothing about the clock)
	pr := &Profile{MultiHandle: true, Purge: 1, Reopen: 2, Keys: []string{"a", "b"}, Ops: scale(allDocOps, map[string]int{"SetWithMeta": 2, "DeleteWithMeta": 2}),
		// (only with a CAS far ahead of any clock reading: such an import must not pull the CAS
		// of later regular writes with it, nor make one of them go backwards)
		MetaCasW: map[string]int{"future": 1}}
	var restore func()
	var globalMax uint64
	var other *World
	pr.Setup = func(r *Run) {
		// a scripted clock for the process-global HLC: readings around "now" that stand still and jump back
		base := uint64(time.Now().UnixNano())
		seed := int64(r.W.Cfg.MaxDocSize) // reuse: carries the drawn script seed (see Config below)
		r.W.Cfg.MaxDocSize = 0
		rosmar.MaxDocSize = r.W.savedMaxDoc
		offs := []int64{0, 0, -int64(time.Hour), 1, 0x10000, -5, 0, int64(time.Second), 0, -int64(time.Minute)}
		var mu sync.Mutex
		i := int(seed)
		restore = rosmar.VerifSetGlobalClock(func() uint64 {
			mu.Lock()
			defer mu.Unlock()
			i++
			return uint64(int64(base) + offs[i%len(offs)]*int64(1+i%3))
		})
		globalMax = rosmar.VerifGlobalHLCHighest()
		// a second bucket in the same process shares the clock
		var err error
		other, err = NewWorld(Config{Disk: r.W.Cfg.Disk, Handles: 1, Colls: []string{allCollNames[0]}})
		if err != nil {
			panic(err)
		}
	}
	pr.Config = func(rt *rapid.T, c *Config) {
		c.MaxDocSize = rapid.IntRange(1, 9).Draw(rt, "clock.seed") // smuggled to Setup
		c.Feeds = nil
	}
	n := 0
	pr.Extra = []ExtraAction{{Name: "OtherBucketWrite", Weight: 6, Gen: func(rt *rapid.T, r *Run) (Op, bool) {
		n++
		return Op{K: "OtherBucketWrite", Key: pick(rt, []string{"x", "y"}, "other.key"), Amt: uint64(n)}, true
	}}}
	pseudoHandlers["OtherBucketWrite"] = func(r *Run, op Op) {
		tr := StepTrace{Op: op, Outcome: "other-bucket"}
		if other != nil {
			ds := other.Coll(0, 0)
			cas, err := ds.WriteCas(op.Key, 0, 0, []byte(fmt.Sprintf(`{"n":%d}`, op.Amt)), 0)
			if err != nil {
				_, cas, err = ds.GetRaw(op.Key)
				if err == nil {
					cas, err = ds.WriteCas(op.Key, 0, cas, []byte(fmt.Sprintf(`{"n":%d}`, op.Amt)), 0)
				}
			}
			if err == nil {
				hi := r.W.Model.MaxIssued
				if globalMax > hi {
					hi = globalMax
				}
				if cas <= hi {
					r.dev("cas.crossbucket", []string{"C04"}, "a write to another bucket of the process got CAS %#x, not greater than %#x handed out earlier", cas, hi)
					tr.Outcome = "DEVIATION"
				}
				if cas > globalMax {
					globalMax = cas
				}
				// the first bucket's next CAS must exceed this one too
				if cas > r.W.Model.MaxIssued {
					r.W.Model.MaxIssued = cas
				}
			}
		}
		r.Trace = append(r.Trace, tr)
	}
	pr.Finish = func(r *Run) {
		if restore != nil {
			restore()
			restore = nil
		}
		if other != nil {
			other.Close()
			other = nil
		}
	}
	seqProperty(t, "C04", "TestC04Bucket", pr, 800,
		"rapid histories over all write entry points on one bucket (memory / disk with close+reopen, 1-3 handles) interleaved with writes to a second bucket of the same process, while the process-global clock follows a script that stands still, jumps back by minutes / an hour and forward; every CAS handed out by the regular write API must exceed every CAS handed out before by either bucket (the engine's 'new CAS > all earlier CAS' clause) and the CAS a call returns is the CAS the document carries; non-trivial = at least 3 successful CAS-changing writes on the first bucket and 1 on the second; distinct by <op, prior class, CAS class, outcome> sequence",
		func(r *Run) bool {
			mine, others := 0, 0
			for _, tr := range r.Trace {
				if tr.Op.K == "OtherBucketWrite" {
					others++
				} else if isDocOp(tr) && tr.Err == "" && !family(tr.Op).touch {
					mine++
				}
			}
			return mine >= 3 && others >= 1
		})
}

// ---- persistence: reopen with a clock far below the persisted high-water mark ---------------------

type reopenCase struct {
	Writes1 int         `json:"writes1"`
	Writes2 int         `json:"writes2"`
	Kill    *CrashPoint `json:"kill,omitempty"`
	Back    int64       `json:"back"`            // how far the second process's clock is behind (ns)
	Colls   int         `json:"colls,omitempty"` // collections the writes are spread over (default 1)
	// Tail: what the first process does after its writes: "" | "drop" (drops the named collection
	// that received the last write) | "purge" (deletes the key written last and purges tombstones) |
	// "metaold" (a SetWithMeta with an old CAS is the last mutation)
	Tail string `json:"tail,omitempty"`
}

func runReopenCase(c reopenCase) ([]Deviation, error) {
	var devs []Deviation
	bad := func(clause, f string, a ...any) {
		devs = append(devs, Deviation{Clause: clause, Props: []string{"C04"}, Sig: clause, Msg: fmt.Sprintf(f, a...)})
	}
	dir, err := os.MkdirTemp(tmpRoot(), "c04")
	if err != nil {
		return nil, err
	}
	defer os.RemoveAll(dir)
	name := fmt.Sprintf("c04%s_%d", shardTag, time.Now().UnixNano())
	ncoll := c.Colls
	if ncoll < 1 {
		ncoll = 1
	}
	cfg := Config{Disk: true, Handles: 1, Colls: append([]string{}, allCollNames[:ncoll]...)}
	base := uint64(time.Now().UnixNano()) + uint64(24*time.Hour)
	mk := func(n int, tag string, colls []int) []Op {
		var ops []Op
		keys := []string{"a", "b", "c"}
		for i := 0; i < n; i++ {
			k := keys[i%len(keys)]
			ci := colls[i%len(colls)]
			switch i % 4 {
			case 0, 1:
				ops = append(ops, Op{K: "Set", C: ci, Key: k, Body: []byte(fmt.Sprintf(`{"%s":%d}`, tag, i))})
			case 2:
				ops = append(ops, Op{K: "SetXattrs", C: ci, Key: k, X: map[string]string{"_sync": fmt.Sprintf(`{"seq":%d}`, i)}})
			case 3:
				ops = append(ops, Op{K: "Delete", C: ci, Key: k})
			}
		}
		return ops
	}
	all := make([]int, ncoll)
	for i := range all {
		all[i] = i
	}
	steps1 := mk(c.Writes1, "p", all)
	left := all
	switch c.Tail {
	case "drop":
		if ncoll > 1 {
			// the newest CAS of the bucket lives in a collection that then disappears
			steps1 = append(steps1, Op{K: "Set", C: ncoll - 1, Key: "z", Body: []byte(`{"last":1}`)}, Op{K: "DropColl", C: ncoll - 1})
			left = all[:ncoll-1]
		}
	case "metaold":
		// the last mutation of the first process carries a caller-supplied CAS far below the clock
		steps1 = append(steps1, Op{K: "SetWithMeta", Key: "zm", Body: []byte(`{"m":1}`), JSON: true, MetaCas: "below", Cas: CasSpec{Kind: "zero"}, Exp: ExpSpec{Kind: "zero"}})
	case "purge":
		// ... or in a document that is deleted and purged
		steps1 = append(steps1, Op{K: "Set", Key: "z", Body: []byte(`{"last":1}`)}, Op{K: "Delete", Key: "z"}, Op{K: "Purge"})
	}
	p1 := &ChildPlan{Dir: dir, Name: name, Config: cfg, Steps: steps1, Clock: &ClockPlan{BaseNs: base, Offsets: []int64{0, 1000, 0, 70000, 5}}, NoClose: c.Kill != nil, Crash: c.Kill}
	r1, err := RunChild(p1, 60*time.Second)
	if err != nil {
		return nil, err
	}
	if r1.Ready == nil {
		return nil, fmt.Errorf("first child did not start: %s %.300s", r1.ExitErr, r1.Stderr)
	}
	var before []uint64
	var model *Model = r1.Ready.Model
	for _, a := range r1.Acks {
		before = append(before, a.Cas...)
		model = a.Model
	}
	// second process: the wall clock is far behind
	p2 := &ChildPlan{Dir: dir, Name: name, Config: cfg, Existing: true, Steps: mk(c.Writes2, "q", left), Clock: &ClockPlan{BaseNs: uint64(int64(base) - c.Back), Offsets: []int64{0, 0, 3, -1000000, 0}}}
	// what the first process left on disk counts as handed out, acknowledged or not (a write killed
	// after its commit is there to be read): the second process reads those keys before it writes
	if c.Tail != "drop" {
		seenKey := map[[2]string]bool{}
		for _, op := range steps1 {
			if op.Key != "" && op.K != "SetWithMeta" && op.C < len(left) {
				ck := [2]string{fmt.Sprint(op.C), op.Key}
				if !seenKey[ck] {
					seenKey[ck] = true
					p2.ScanKeys = append(p2.ScanKeys, ck)
				}
			}
		}
	}
	// the interrupted call of the first process may or may not have been applied: let the second
	// process start from what it finds (Set / SetXattrs / Delete need no symbolic CAS)
	_ = model
	r2, err := RunChild(p2, 60*time.Second)
	if err != nil {
		return nil, err
	}
	if r2.Ready == nil {
		bad("reopen.start", "the bucket cannot be reopened by a second process: %s %.400s", r2.ExitErr, r2.Stderr)
		return devs, nil
	}
	acked := map[uint64]bool{}
	for _, x := range before {
		acked[x] = true
	}
	for _, x := range r2.Ready.Cas {
		if !acked[x] {
			acked[x] = true
			before = append(before, x)
		}
	}
	var after []uint64
	for _, a := range r2.Acks {
		after = append(after, a.Cas...)
	}
	var maxBefore uint64
	for _, x := range before {
		if x > maxBefore {
			maxBefore = x
		}
	}
	prev := maxBefore
	for i, x := range after {
		if x <= maxBefore {
			bad("reopen.cas", "after reopening with the clock %s behind, write #%d got CAS %#x, not greater than %#x acknowledged (or found on disk) before the bucket was closed/killed (%d CAS values before)", time.Duration(c.Back), i, x, maxBefore, len(before))
			break
		}
		if x <= prev && i > 0 {
			bad("reopen.monotonic", "CAS %#x after %#x in the second process", x, prev)
			break
		}
		prev = x
	}
	sort.Slice(before, func(i, j int) bool { return before[i] < before[j] })
	for i := 1; i < len(before); i++ {
		if before[i] == before[i-1] {
			bad("reopen.unique", "CAS %#x handed out twice in the first process", before[i])
		}
	}
	return devs, nil
}

func TestC04Reopen(t *testing.T) {
	st := statsFor("C04", "TestC04Reopen")
	st.Rule = "two child processes on one on-disk bucket: the first writes with the global clock a day ahead and then closes, exits without closing, or is SIGKILLed at a generated hook occurrence (its writes are spread over 1-3 collections; optionally the collection holding the newest CAS is dropped, or the newest document deleted and purged, or a SetWithMeta with an old CAS made the last mutation, before it ends); the second reopens the bucket with the clock minutes..days behind the first and writes; every CAS acknowledged by the second process must exceed every CAS acknowledged by the first; non-trivial = the second clock is behind the persisted high-water mark and both processes acknowledged writes; distinct by case parameters"
	if replayMode() {
		rp := loadReplay("TestC04Reopen")
		if rp == nil {
			t.Skip("replay file is for another test")
		}
		var c reopenCase
		if err := json.Unmarshal(rp.Extra, &c); err != nil {
			t.Fatal(err)
		}
		ds, err := runReopenCase(c)
		if err != nil {
			t.Fatalf("infrastructure: %v", err)
		}
		st.Case(1, true, func() any { return c })
		if len(ds) > 0 {
			t.Fatalf("property C04 violated by replay:%s", devText(ds))
		}
		return
	}
	var once sync.Once
	rapid.Check(t, func(rt *rapid.T) {
		c := reopenCase{Writes1: rapid.IntRange(1, 8).Draw(rt, "w1"), Writes2: rapid.IntRange(1, 5).Draw(rt, "w2")}
		c.Colls = rapid.IntRange(1, 3).Draw(rt, "colls")
		c.Tail = pick(rt, []string{"", "", "drop", "purge", "metaold"}, "tail")
		c.Back = pick(rt, []int64{int64(time.Minute), int64(time.Hour), int64(23 * time.Hour), int64(48 * time.Hour), 70000}, "back")
		switch rapid.IntRange(0, 2).Draw(rt, "end") {
		case 1:
			c.Kill = &CrashPoint{Hook: pick(rt, []string{"tx.afterCommit", "cas.beforePost", "tx.beforeCommit", "cas.afterDocWrite"}, "kill.hook"), Nth: rapid.IntRange(1, c.Writes1+2).Draw(rt, "kill.nth")}
		case 2:
			c.Kill = &CrashPoint{Hook: "never", Nth: 1} // exits without closing
		}
		ds, err := runReopenCase(c)
		if err != nil {
			rt.Fatalf("INFRA: %v", err)
		}
		b, _ := json.Marshal(c)
		st.Case(fnvString(string(b)), true, func() any { return c })
		if len(ds) > 0 {
			once.Do(func() {
				saveReplay(&Replay{Property: "C04", Test: "TestC04Reopen", Extra: b, Expect: ds})
				st.Violations++
			})
			rt.Fatalf("property C04 violated (replay %s):%s", replayPath("C04", "TestC04Reopen"), devText(ds))
		}
	})
}
