package h

// C16 — feeds terminate cleanly and independently. Scenarios run in child processes (a second
// close of a done channel would panic in a rosmar goroutine).

import (
	"bytes"
	"encoding/json"
	"fmt"
	"os"
	"os/exec"
	"strings"
	"sync"
	"sync/atomic"
	"syscall"
	"testing"
	"time"

	sgbucket "github.com/couchbase/sg-bucket"
	"github.com/couchbaselabs/rosmar"
	"pgregory.net/rapid"
)

type tfFeed struct {
	H     int  `json:"h"`
	C     int  `json:"c"`
	Multi bool `json:"multi,omitempty"`
	NoDef bool `json:"noDef,omitempty"` // a multi-collection feed over the named collections only
	Dump  bool `json:"dump,omitempty"`
	Cp    bool `json:"cp,omitempty"`   // with a CheckpointPrefix: the feed persists a checkpoint when it ends
	CpSh  bool `json:"cpSh,omitempty"` // ... and the same prefix and feed ID as every other such feed
}

type tfAction struct {
	Do string `json:"do"` // term | drop | close | delete | write
	I  int    `json:"i"`  // feed index / collection index / handle index
	H  int    `json:"h,omitempty"`
}

type tfCase struct {
	Disk    bool       `json:"disk"`
	Handles int        `json:"handles"`
	Colls   int        `json:"colls"`
	Names   []string   `json:"names,omitempty"` // the collections (default: the first Colls names of the pool)
	Feeds   []tfFeed   `json:"feeds"`
	Actions []tfAction `json:"actions"`
	Mid     *tfMid     `json:"mid,omitempty"` // instead of Feeds/Actions: a feed stopped in the middle of a delivery
}

// tfMid: a feed over a collection with Docs documents is held inside its callback at event number
// HoldAt (more events queued behind it), its terminator is closed there, and the callback is let go.
type tfMid struct {
	Docs    int  `json:"docs"`
	HoldAt  int  `json:"holdAt"`
	Dump    bool `json:"dump"` // a dump feed (ends by itself after the backfill) or a live one
	Live    int  `json:"live"` // live feed: writes made after the start (queued behind the held event)
	C       int  `json:"c"`
	H       int  `json:"h"`
	Sibling bool `json:"sibling"` // a second live feed on the same collection that must keep running
}

func runMidStop(c tfCase) (res shutResult) {
	m := c.Mid
	bad := func(clause, f string, a ...any) {
		res.Devs = append(res.Devs, Deviation{Clause: clause, Props: []string{"C16"}, Sig: clause, Msg: fmt.Sprintf(f, a...) + fmt.Sprintf(" (log: %v)", res.Log)})
	}
	logf := func(f string, a ...any) { res.Log = append(res.Log, fmt.Sprintf(f, a...)) }
	w, err := NewWorld(Config{Disk: c.Disk, Handles: c.Handles, Colls: c.collNames()})
	if err != nil {
		bad("tf.setup", "%v", err)
		return
	}
	defer w.Close()
	ds := w.Coll(m.H%c.Handles, m.C%c.Colls)
	for i := 0; i < m.Docs; i++ {
		_ = ds.Set(fmt.Sprintf("d%03d", i), 0, nil, []byte(fmt.Sprintf(`{"i":%d}`, i)))
	}
	var sib *Collector
	if m.Sibling {
		sib, err = w.startFeed(FeedCfg{H: (m.H + 1) % c.Handles, C: m.C % c.Colls}, sgbucket.FeedNoBackfill, false, "")
		if err != nil {
			bad("tf.start", "sibling feed: %v", err)
			return
		}
	}
	var nDocEvents, afterRelease, afterDone atomic.Int64
	held := make(chan struct{})
	release := make(chan struct{})
	term := make(chan bool)
	done := make(chan struct{})
	var doneClosed, released atomic.Bool
	go func() { <-done; doneClosed.Store(true) }()
	args := sgbucket.FeedArguments{ID: "mid", Backfill: 0, Dump: m.Dump, Terminator: term, DoneChan: done}
	cb := func(ev sgbucket.FeedEvent) bool {
		if doneClosed.Load() {
			afterDone.Add(1)
		}
		if ev.Opcode != sgbucket.FeedOpMutation && ev.Opcode != sgbucket.FeedOpDeletion {
			return true
		}
		n := nDocEvents.Add(1)
		if released.Load() {
			afterRelease.Add(1)
		}
		if int(n) == m.HoldAt {
			close(held)
			<-release
			released.Store(true)
		}
		return true
	}
	if err := w.RColl(m.H%c.Handles, m.C%c.Colls).StartDCPFeed(ctx, args, cb, nil); err != nil {
		bad("tf.start", "StartDCPFeed failed: %v", err)
		return
	}
	if !m.Dump {
		for i := 0; i < m.Live; i++ {
			_ = ds.Set(fmt.Sprintf("l%03d", i), 0, nil, []byte(`{"l":1}`))
		}
	}
	select {
	case <-held:
	case <-time.After(10 * time.Second):
		bad("tf.setup", "the feed never delivered event %d of %d", m.HoldAt, m.Docs+m.Live)
		return
	}
	queued := int64(m.Docs) - int64(m.HoldAt)
	if !m.Dump {
		queued += int64(m.Live)
	}
	close(term)
	logf("terminator closed while the callback is held at event %d (%d more queued)", m.HoldAt, queued)
	time.Sleep(30 * time.Millisecond)
	close(release)
	select {
	case <-done:
	case <-time.After(5 * time.Second):
		bad("tf.notended", "a %s feed whose terminator was closed in the middle of a delivery did not close its done channel", ifelse(m.Dump, "dump", "live"))
	}
	time.Sleep(50 * time.Millisecond)
	res.InFlight = queued > 1
	// the event that was already being delivered is finished; one more that had already been taken
	// from the queue is tolerated; the rest must not be delivered to a feed that was told to end
	if n := afterRelease.Load(); n > 1 {
		bad("tf.afterterm", "the callback of a %s feed was invoked %d more times after its terminator had been closed (of %d events still queued at that moment): closing the terminator did not end the feed", ifelse(m.Dump, "dump", "live"), n, queued)
	}
	if n := afterDone.Load(); n > 0 {
		bad("tf.afterdone", "the callback was invoked %d times after the done channel had closed", n)
	}
	if sib != nil {
		_ = ds.SetRaw(sentinelPrefix, 0, nil, []byte("s"))
		_, cas, _ := ds.GetRaw(sentinelPrefix)
		if !sib.waitCas(cas, 10*time.Second) {
			bad("tf.starved", "a second feed on the same collection did not receive a write made after the first feed was ended")
		}
		sib.Stop()
	}
	return
}

func ifelse(c bool, a, b string) string {
	if c {
		return a
	}
	return b
}

type tfState struct {
	col       *Collector
	ended     bool // the model says it must have ended
	why       string
	covers    map[int]bool
	callbacks atomic.Int64
}

func runFeedScenario(c tfCase) (res shutResult) {
	if c.Mid != nil {
		return runMidStop(c)
	}
	c16 := []string{"C16"}
	bad := func(clause, f string, a ...any) {
		res.Devs = append(res.Devs, Deviation{Clause: clause, Props: c16, Sig: clause, Msg: fmt.Sprintf(f, a...) + fmt.Sprintf(" (log: %v)", res.Log)})
	}
	logf := func(f string, a ...any) { res.Log = append(res.Log, fmt.Sprintf(f, a...)) }
	w, err := NewWorld(Config{Disk: c.Disk, Handles: c.Handles, Colls: c.collNames()})
	if err != nil {
		bad("tf.setup", "%v", err)
		return
	}
	for ci := 0; ci < c.Colls; ci++ {
		_ = w.Coll(0, ci).Set("seed", 0, nil, []byte(`{"s":1}`))
	}
	feeds := make([]*tfState, len(c.Feeds))
	for i, f := range c.Feeds {
		st := &tfState{covers: map[int]bool{}}
		backfill := uint64(sgbucket.FeedNoBackfill)
		if f.Dump {
			backfill = 0
		}
		prefix := ""
		if f.Cp {
			prefix = "cp16"
		}
		if f.CpSh {
			prefix = "cp16s"
		}
		col, err := w.startFeed(FeedCfg{H: f.H, C: f.C, Multi: f.Multi, NoDefault: f.NoDef}, backfill, f.Dump, prefix)
		if err != nil {
			bad("tf.start", "StartDCPFeed %+v failed: %v", f, err)
			return
		}
		st.col = col
		for _, ci := range col.colls {
			st.covers[ci] = true
		}
		if f.Dump {
			st.ended, st.why = true, "dump finished"
		}
		feeds[i] = st
	}
	handleOpen := make([]bool, c.Handles)
	for i := range handleOpen {
		handleOpen[i] = true
	}
	dropped := map[int]bool{}
	storeDown := false
	openHandle := func() int {
		for i, o := range handleOpen {
			if o {
				return i
			}
		}
		return -1
	}
	// verify: ended feeds have closed their done channel; surviving feeds still deliver
	round := 0
	verify := func(after string) {
		var sentinel uint64
		// every open handle looks every collection up afresh (as a user who does not keep the
		// DataStore object would), then the sentinel goes through one of them in rotation
		var open []int
		for hi, o := range handleOpen {
			if o && !storeDown {
				open = append(open, hi)
				for ci := 0; ci < c.Colls; ci++ {
					// (only some of them each time: a handle may keep a stale cache entry for a while)
					if !dropped[ci] && (round*7+hi*3+ci*5+len(after))%3 == 0 {
						w.colls[hi][ci] = nil
						_ = w.Coll(hi, ci)
					}
				}
			}
		}
		h := -1
		if len(open) > 0 {
			h = open[round%len(open)]
			round++
		}
		sentCas := map[int]uint64{}
		if h >= 0 && !storeDown {
			for ci := 0; ci < c.Colls; ci++ {
				if dropped[ci] {
					continue
				}
				ds := w.Coll(h, ci)
				sentinel++
				if err := ds.SetRaw(sentinelPrefix, 0, nil, []byte("s")); err != nil {
					bad("tf.write", "after %s a write through open handle %d to %s failed: %v", after, h, w.Cfg.Colls[ci], err)
					continue
				}
				_, cas, _ := ds.GetRaw(sentinelPrefix)
				sentCas[ci] = cas
			}
		}
		for i, st := range feeds {
			if st.ended {
				select {
				case <-st.col.done:
				case <-time.After(4 * time.Second):
					bad("tf.notended", "after %s feed %d (%+v) must have ended (%s) but its done channel is still open", after, i, c.Feeds[i], st.why)
				}
				continue
			}
			select {
			case <-st.col.done:
				bad("tf.ended", "after %s feed %d (%+v) ended although nothing that should end it happened", after, i, c.Feeds[i])
				st.ended, st.why = true, "ended unexpectedly (reported)"
				continue
			default:
			}
			for ci := range st.covers {
				if cas, ok := sentCas[ci]; ok && !dropped[ci] {
					if !st.col.waitCas(cas, 10*time.Second) {
						bad("tf.starved", "after %s feed %d (%+v) should still be running but did not receive a write to %s made through open handle %d", after, i, c.Feeds[i], w.Cfg.Colls[ci], h)
					}
				}
			}
		}
	}
	verify("start")
	for _, a := range c.Actions {
		if storeDown {
			break
		}
		switch a.Do {
		case "term":
			st := feeds[a.I%len(feeds)]
			st.col.Stop()
			if !st.ended {
				st.ended, st.why = true, "terminator closed"
			}
			logf("term feed %d", a.I%len(feeds))
		case "drop":
			ci := 1 + a.I%(c.Colls-1)
			h := a.H % c.Handles
			if dropped[ci] || !handleOpen[h] {
				continue
			}
			if err := w.Handles[h].DropDataStore(dsName(w.Cfg.Colls[ci])); err != nil {
				bad("tf.drop", "DropDataStore failed: %v", err)
				continue
			}
			dropped[ci] = true
			for hh := range w.colls {
				w.colls[hh][ci] = nil
			}
			for _, st := range feeds {
				if st.covers[ci] {
					delete(st.covers, ci)
					if len(st.covers) == 0 && !st.ended {
						st.ended, st.why = true, "its collection was dropped"
					}
				}
			}
			logf("drop %s via h%d", w.Cfg.Colls[ci], h)
		case "close":
			h := a.I % c.Handles
			if !handleOpen[h] {
				continue
			}
			w.Handles[h].Close(ctx)
			handleOpen[h] = false
			logf("close h%d", h)
			if openHandle() < 0 && c.Disk {
				storeDown = true
				for _, st := range feeds {
					if !st.ended {
						st.ended, st.why = true, "last handle of the on-disk bucket closed"
					}
				}
			}
		case "delete":
			h := a.I % c.Handles
			_ = w.Handles[h].CloseAndDelete(ctx)
			storeDown = true
			logf("CloseAndDelete via h%d", h)
			for _, st := range feeds {
				if !st.ended {
					st.ended, st.why = true, "bucket deleted"
				}
			}
		case "recreate":
			h := a.H % c.Handles
			ci := 1 + a.I%(c.Colls-1)
			if !dropped[ci] || !handleOpen[h] {
				continue
			}
			if err := w.Handles[h].CreateDataStore(ctx, dsName(w.Cfg.Colls[ci])); err != nil {
				bad("tf.recreate", "CreateDataStore failed: %v", err)
				continue
			}
			dropped[ci] = false
			logf("recreate %s via h%d", w.Cfg.Colls[ci], h)
		case "feed":
			h := a.H % c.Handles
			ci := a.I % c.Colls
			if dropped[ci] || !handleOpen[h] {
				continue
			}
			col, err := w.startFeed(FeedCfg{H: h, C: ci}, sgbucket.FeedNoBackfill, false, "")
			if err != nil {
				bad("tf.start", "StartDCPFeed on %s via h%d failed: %v", w.Cfg.Colls[ci], h, err)
				continue
			}
			feeds = append(feeds, &tfState{col: col, covers: map[int]bool{ci: true}})
			c.Feeds = append(c.Feeds, tfFeed{H: h, C: ci})
			logf("new feed on %s via h%d", w.Cfg.Colls[ci], h)
		case "write":
			h := openHandle()
			if h >= 0 {
				ci := a.I % c.Colls
				if !dropped[ci] {
					_ = w.Coll(h, ci).Set(fmt.Sprintf("w%d", a.I), 0, nil, []byte(`{"w":1}`))
				}
			}
			continue
		}
		verify(a.Do)
	}
	if storeDown {
		// a feed started now - through another handle, on a data store object obtained while the
		// store was up - has nothing to attach to: the start fails, or the feed ends at once
		for h := range w.Handles {
			ds, _ := w.colls[h][0].(*rosmar.Collection)
			if ds == nil {
				continue
			}
			done := make(chan struct{})
			args := sgbucket.FeedArguments{ID: fmt.Sprintf("late%d", h), Backfill: sgbucket.FeedNoBackfill, Terminator: make(chan bool), DoneChan: done}
			var serr error
			if p := safely(func() { serr = ds.StartDCPFeed(ctx, args, func(sgbucket.FeedEvent) bool { return true }, nil) }); p != "" {
				bad("tf.panic", "StartDCPFeed through handle %d after the store was shut down panicked: %s", h, p)
				continue
			}
			if serr == nil {
				select {
				case <-done:
				case <-time.After(4 * time.Second):
					bad("tf.lateleak", "a feed started through handle %d after the store had been shut down (through another handle) was accepted and never ended", h)
				}
			}
			logf("late feed via h%d: err=%v", h, serr)
		}
	}
	for i, st := range feeds {
		if n := st.col.afterDone.Load(); n > 0 {
			bad("tf.afterdone", "feed %d: its callback was invoked %d times after its done channel had closed", i, n)
		}
	}
	if storeDown {
		time.Sleep(200 * time.Millisecond)
		if left := rosmarGoroutines(); len(left) > 0 {
			bad("tf.leak", "feed goroutines still running after the store was shut down: %v", left)
		}
	}
	res.InFlight = true
	return
}

func TestC16Child(t *testing.T) {
	raw := os.Getenv("VERIF_C16")
	if raw == "" {
		t.Skip("not a child")
	}
	var c tfCase
	if err := json.Unmarshal([]byte(raw), &c); err != nil {
		t.Fatal(err)
	}
	res := runFeedScenario(c)
	b, _ := json.Marshal(res)
	os.Stdout.Write(append(append([]byte("RESULT "), b...), '\n'))
	os.Exit(0)
}

func runFeedChild(c tfCase) (shutResult, error) {
	b, _ := json.Marshal(c)
	cmd := exec.Command(os.Args[0], "-test.run=^TestC16Child$", "-test.count=1", "-test.timeout=180s")
	cmd.Env = append(os.Environ(), "VERIF_C16="+string(b), "VERIF_STATS=", "VERIF_REPLAY=")
	var stdout, stderr bytes.Buffer
	cmd.Stdout, cmd.Stderr = &stdout, &stderr
	if err := cmd.Start(); err != nil {
		return shutResult{}, err
	}
	done := make(chan error, 1)
	go func() { done <- cmd.Wait() }()
	timedOut := false
	var werr error
	select {
	case werr = <-done:
	case <-time.After(150 * time.Second):
		timedOut = true
		_ = cmd.Process.Signal(syscall.SIGQUIT)
		werr = <-done
	}
	out := stdout.String()
	if i := strings.Index(out, "RESULT "); i >= 0 {
		var res shutResult
		line := out[i+7:]
		if j := strings.IndexByte(line, '\n'); j >= 0 {
			line = line[:j]
		}
		if json.Unmarshal([]byte(line), &res) == nil {
			return res, nil
		}
	}
	all := out + stderr.String()
	if strings.Contains(all, "panic:") && !timedOut {
		msg := all[strings.Index(all, "panic:"):]
		if len(msg) > 1000 {
			msg = msg[:1000]
		}
		return shutResult{InFlight: true, Devs: []Deviation{{Clause: "tf.panic", Props: []string{"C16", "C20"}, Sig: "tf.panic", Msg: "the process panicked:\n" + msg}}}, nil
	}
	return shutResult{}, fmt.Errorf("child ended without a result (timeout=%v): %v %.600s", timedOut, werr, all)
}

func (c tfCase) collNames() []string {
	if len(c.Names) == c.Colls {
		return c.Names
	}
	return allCollNames[:c.Colls]
}

func genFeedCase(rt *rapid.T) tfCase {
	c := tfCase{Disk: chance(rt, 45, "disk"), Handles: rapid.IntRange(1, 3).Draw(rt, "handles"), Colls: rapid.IntRange(2, 3).Draw(rt, "colls")}
	if c.Colls == 3 && chance(rt, 25, "names.twin") {
		c.Names = []string{allCollNames[0], "s1.c1", "s2.c1"} // one collection name in two scopes
	} else if chance(rt, 40, "names") {
		// any named collections of the pool next to the default one (same name in two scopes, names
		// differing in case, ...)
		c.Names = []string{allCollNames[0]}
		rest := append([]string{}, allCollNames[1:]...)
		for len(c.Names) < c.Colls {
			i := rapid.IntRange(0, len(rest)-1).Draw(rt, "names.i")
			c.Names = append(c.Names, rest[i])
			rest = append(rest[:i], rest[i+1:]...)
		}
	}
	if chance(rt, 25, "mid") {
		m := &tfMid{Docs: rapid.IntRange(1, 40).Draw(rt, "mid.docs"), Dump: chance(rt, 50, "mid.dump"), Live: rapid.IntRange(0, 10).Draw(rt, "mid.live"),
			C: rapid.IntRange(0, c.Colls-1).Draw(rt, "mid.c"), H: rapid.IntRange(0, c.Handles-1).Draw(rt, "mid.h"), Sibling: chance(rt, 40, "mid.sibling")}
		m.HoldAt = rapid.IntRange(1, m.Docs).Draw(rt, "mid.holdAt")
		c.Mid = m
		return c
	}
	nf := rapid.IntRange(1, 4).Draw(rt, "nfeeds")
	for i := 0; i < nf; i++ {
		f := tfFeed{H: rapid.IntRange(0, c.Handles-1).Draw(rt, "feed.h"), C: rapid.IntRange(0, c.Colls-1).Draw(rt, "feed.c")}
		f.Multi = chance(rt, 25, "feed.multi")
		f.NoDef = f.Multi && chance(rt, 50, "feed.nodefault")
		f.Dump = !f.Multi && chance(rt, 15, "feed.dump")
		f.Cp = chance(rt, 30, "feed.cp")
		f.CpSh = f.Cp && chance(rt, 50, "feed.cpshared")
		c.Feeds = append(c.Feeds, f)
	}
	na := rapid.IntRange(1, 9).Draw(rt, "nactions")
	for i := 0; i < na; i++ {
		a := tfAction{Do: pick(rt, []string{"term", "drop", "drop", "recreate", "recreate", "feed", "feed", "close", "delete", "write", "cycle", "cycle"}, "action"), I: rapid.IntRange(0, 5).Draw(rt, "i"), H: rapid.IntRange(0, 2).Draw(rt, "h")}
		if a.Do == "cycle" {
			// a collection dropped and created again through one handle, and a feed started on the new
			// one: the other handles still remember the old collection when they next look it up
			ci := 1 + a.I%(c.Colls-1)
			c.Actions = append(c.Actions, tfAction{Do: "drop", I: a.I, H: a.H}, tfAction{Do: "recreate", I: a.I, H: a.H}, tfAction{Do: "feed", I: ci, H: a.H})
			continue
		}
		c.Actions = append(c.Actions, a)
	}
	return c
}

func TestC16(t *testing.T) {
	st := statsFor("C16", "TestC16")
	st.Rule = "each generated configuration runs in a child process: 1-3 handles x 2-3 collections (the first names of the pool, or drawn from it: one name in two scopes, names differing only in case) x 1-4 feeds (live, dump, checkpointed with own / shared ID, multi-collection over all or over the named collections only) started through generated handles, then generated orders of terminator closes, collection drops through any handle, handle closes (first / last) and bucket deletion, with writes in between; after every action each feed that must have ended (terminator, dump, its collection dropped, bucket deleted, last handle of an on-disk bucket closed) must have closed its done channel, every other feed must still receive a write made through a surviving handle to each of its collections; no callback after done, no second close of a done channel (would panic), no feed goroutine after store shutdown; a quarter of the cases instead hold a dump / live feed inside its callback at a generated event with more events queued, close its terminator there and let go: the feed must end without delivering the queued events (one already taken from the queue is tolerated) while a sibling feed keeps running; non-trivial = the handle that ends something differs from the handle that started the affected feed, or a sibling feed must survive the action; distinct by configuration"
	if replayMode() {
		rp := loadReplay("TestC16")
		if rp == nil {
			t.Skip("replay file is for another test")
		}
		var c tfCase
		if err := json.Unmarshal(rp.Extra, &c); err != nil {
			t.Fatal(err)
		}
		res, err := runFeedChild(c)
		if err != nil {
			t.Fatalf("infrastructure: %v", err)
		}
		st.Case(1, true, func() any { return c })
		if len(res.Devs) > 0 {
			t.Fatalf("property C16 violated by replay:%s", devText(res.Devs))
		}
		return
	}
	var once sync.Once
	rapid.Check(t, func(rt *rapid.T) {
		n := 6
		cases := make([]tfCase, n)
		for i := range cases {
			cases[i] = genFeedCase(rt)
		}
		results := make([]shutResult, n)
		errs := make([]error, n)
		var wg sync.WaitGroup
		for i := range cases {
			wg.Add(1)
			go func(i int) {
				defer wg.Done()
				results[i], errs[i] = runFeedChild(cases[i])
			}(i)
		}
		wg.Wait()
		for i, res := range results {
			if errs[i] != nil {
				rt.Fatalf("INFRA: %v", errs[i])
			}
			b, _ := json.Marshal(cases[i])
			c := cases[i]
			nt := c.Mid != nil && res.InFlight
			for _, a := range c.Actions {
				if a.Do == "drop" || a.Do == "close" || a.Do == "delete" {
					for _, f := range c.Feeds {
						if f.H != a.H%c.Handles || len(c.Feeds) > 1 {
							nt = true
						}
					}
				}
			}
			st.Case(fnvString(string(b)), nt, func() any { return map[string]any{"case": c, "log": res.Log} })
			var ds []Deviation
			for _, d := range res.Devs {
				if !d.Has("C16") {
					continue
				}
				if id, ok := tolerated("C16", d); ok {
					st.KnownHits[id]++
					continue
				}
				ds = append(ds, d)
			}
			if len(ds) > 0 {
				once.Do(func() {
					saveReplay(&Replay{Property: "C16", Test: "TestC16", Extra: b, Expect: ds})
					st.Violations++
				})
				rt.Fatalf("property C16 violated (replay %s):%s", replayPath("C16", "TestC16"), devText(ds))
			}
		}
	})
}
