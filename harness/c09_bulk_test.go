package h

// C09 with many documents: whatever batch, page or buffer size a backfill uses internally, it
// delivers the current version of every document with CAS >= s exactly once, in CAS order - also
// when many documents share one CAS (caller-supplied *WithMeta CAS values may coincide), when the
// collection holds thousands of them, and when the caller's context is cancelled while the feed is
// being started (then the start either fails or the backfill is complete).

import (
	"context"
	"encoding/json"
	"fmt"
	"sort"
	"sync"
	"testing"
	"time"

	sgbucket "github.com/couchbase/sg-bucket"
	"pgregory.net/rapid"
)

type bulkCase struct {
	Disk     bool   `json:"disk"`
	N        int    `json:"n"`
	Tie      string `json:"tie"`  // none | all | groups: how many documents share a CAS
	From     string `json:"from"` // zero | mid | midplus | last
	KeysOnly bool   `json:"keysOnly"`
	CancelUs int    `json:"cancelUs"` // -1: never; else cancel the start context after this many microseconds
}

func runBulkCase(c bulkCase) (devs []Deviation, err error) {
	props := []string{"C09"}
	if c.CancelUs >= 0 {
		props = []string{"C09", "C15"}
	}
	bad := func(clause, f string, a ...any) {
		devs = append(devs, Deviation{Clause: clause, Props: props, Sig: clause, Msg: fmt.Sprintf(f, a...)})
	}
	w, err := NewWorld(Config{Disk: c.Disk, Handles: 1, Colls: allCollNames[:1]})
	if err != nil {
		return nil, err
	}
	defer w.Close()
	ds := w.Coll(0, 0)
	rc := w.RColl(0, 0)
	base := uint64(time.Now().UnixNano()) | 0x5555
	for i := 0; i < c.N; i++ {
		key := fmt.Sprintf("d%05d", i)
		body := []byte(fmt.Sprintf(`{"i":%d}`, i))
		var e error
		switch c.Tie {
		case "all":
			e = rc.SetWithMeta(ctx, key, 0, base, 0, nil, body, sgbucket.FeedDataTypeJSON)
		case "groups":
			e = rc.SetWithMeta(ctx, key, 0, base+uint64(i/7)*16, 0, nil, body, sgbucket.FeedDataTypeJSON)
		default:
			e = ds.SetRaw(key, 0, nil, body)
		}
		if e != nil {
			return nil, fmt.Errorf("setup write %d: %v", i, e)
		}
		if i%11 == 10 && c.Tie == "none" {
			_ = ds.Delete(key)
		}
	}
	// what is there, by read-back
	type docv struct {
		cas  uint64
		tomb bool
	}
	cur := map[string]docv{}
	var all []uint64
	for i := 0; i < c.N; i++ {
		key := fmt.Sprintf("d%05d", i)
		st, _ := Observe(ds, key, nil)
		if st.Present {
			cur[key] = docv{st.Cas, st.Body == nil}
			all = append(all, st.Cas)
		}
	}
	sort.Slice(all, func(i, j int) bool { return all[i] < all[j] })
	var from uint64
	switch c.From {
	case "mid":
		from = all[len(all)/2]
	case "midplus":
		from = all[len(all)/2] + 1
	case "last":
		from = all[len(all)-1]
	}
	var mu sync.Mutex
	got := map[string]int{}
	var order []uint64
	var opcodes = map[string]sgbucket.FeedOpcode{}
	begin, end := 0, 0
	done := make(chan struct{})
	args := sgbucket.FeedArguments{ID: "bulk", Backfill: from, Dump: true, KeysOnly: c.KeysOnly, DoneChan: done}
	fctx := context.Context(ctx)
	if c.CancelUs >= 0 {
		var cancel context.CancelFunc
		fctx, cancel = context.WithCancel(ctx)
		go func() {
			time.Sleep(time.Duration(c.CancelUs) * time.Microsecond)
			cancel()
		}()
		defer cancel()
	}
	serr := rc.StartDCPFeed(fctx, args, func(ev sgbucket.FeedEvent) bool {
		mu.Lock()
		defer mu.Unlock()
		switch ev.Opcode {
		case sgbucket.FeedOpBeginBackfill:
			begin++
		case sgbucket.FeedOpEndBackfill:
			end++
		case sgbucket.FeedOpMutation, sgbucket.FeedOpDeletion:
			got[string(ev.Key)]++
			order = append(order, ev.Cas)
			opcodes[string(ev.Key)] = ev.Opcode
		}
		return true
	}, nil)
	if serr != nil {
		if c.CancelUs < 0 {
			bad("bulk.start", "StartDCPFeed(dump from %#x) failed: %v", from, serr)
		}
		return // a start that was cancelled may fail: nothing was promised
	}
	select {
	case <-done:
	case <-time.After(60 * time.Second):
		bad("bulk.done", "a dump feed over %d documents did not finish within 60 s", c.N)
		return
	}
	mu.Lock()
	defer mu.Unlock()
	if begin != 1 || end != 1 {
		bad("bulk.markers", "%d begin / %d end backfill markers", begin, end)
	}
	missing, extra, dup := 0, 0, 0
	var firstMissing string
	for key, d := range cur {
		want := 0
		if d.cas >= from {
			want = 1
		}
		switch n := got[key]; {
		case n < want:
			missing++
			if firstMissing == "" || key < firstMissing {
				firstMissing = key
			}
		case n > 1:
			dup++
		case n > want:
			extra++
		}
		if got[key] == 1 && !c.KeysOnly {
			if isDel := opcodes[key] == sgbucket.FeedOpDeletion; isDel != d.tomb {
				bad("bulk.opcode", "document %s: deletion opcode %v, document is a tombstone: %v", key, isDel, d.tomb)
				break
			}
		}
	}
	if missing > 0 {
		bad("bulk.missing", "a backfill from %#x over %d documents (CAS sharing: %s) delivered no event for %d current documents with CAS >= the start (first: %s, cas %#x); %d events in all", from, c.N, c.Tie, missing, firstMissing, cur[firstMissing].cas, len(order))
	}
	if dup > 0 || extra > 0 {
		bad("bulk.extra", "a backfill from %#x over %d documents delivered %d documents more than once and %d documents below its start CAS", from, c.N, dup, extra)
	}
	for i := 1; i < len(order); i++ {
		if order[i] < order[i-1] {
			bad("bulk.order", "backfill event %d has CAS %#x after %#x", i, order[i], order[i-1])
			break
		}
	}
	return
}

func TestC09Bulk(t *testing.T) {
	st := statsFor("C09", "TestC09Bulk")
	st.Rule = "a collection of 5-2100 documents (drawn around 1000 / 2000 as well), written by the regular API (every 11th deleted again) or by SetWithMeta with one CAS for all / for groups of seven, then a dump feed from 0 / the median CAS / median+1 / the highest CAS, optionally KeysOnly, optionally with the start context cancelled after 0-3000 us: if the start succeeds, exactly one event per current document with CAS >= start, none below it, in CAS order, between one pair of markers; non-trivial = at least 1000 documents; distinct by case"
	if replayMode() {
		rp := loadReplay("TestC09Bulk")
		if rp == nil {
			t.Skip("replay file is for another test")
		}
		var c bulkCase
		if err := json.Unmarshal(rp.Extra, &c); err != nil {
			t.Fatal(err)
		}
		tries := 1
		if c.CancelUs >= 0 {
			tries = 20 // (when the cancellation lands is a matter of timing)
		}
		for i := 0; i < tries; i++ {
			devs, err := runBulkCase(c)
			if err != nil {
				t.Fatalf("infrastructure: %v", err)
			}
			if len(devs) > 0 {
				t.Fatalf("property C09 violated by replay:%s", devText(devs))
			}
		}
		st.Case(1, true, func() any { return c })
		return
	}
	var once sync.Once
	rapid.Check(t, func(rt *rapid.T) {
		c := bulkCase{Disk: chance(rt, 35, "disk"), N: pick(rt, []int{5, 60, 300, 999, 1000, 1001, 1007, 1500, 2000, 2001, 2100}, "n"),
			Tie: pick(rt, []string{"none", "none", "all", "groups"}, "tie"), From: pick(rt, []string{"zero", "zero", "mid", "midplus", "last"}, "from"),
			KeysOnly: chance(rt, 25, "keysonly"), CancelUs: -1}
		if chance(rt, 30, "cancel") {
			c.CancelUs = rapid.IntRange(0, 3000).Draw(rt, "cancelUs")
		}
		devs, err := runBulkCase(c)
		if err != nil {
			rt.Fatalf("INFRA: %v", err)
		}
		b, _ := json.Marshal(c)
		st.Case(fnvString(string(b)), c.N >= 1000, func() any { return c })
		var ds []Deviation
		for _, d := range devs {
			if id, ok := tolerated("C09", d); ok {
				st.KnownHits[id]++
				continue
			}
			ds = append(ds, d)
		}
		if len(ds) > 0 {
			once.Do(func() {
				saveReplay(&Replay{Property: "C09", Test: "TestC09Bulk", Extra: b, Expect: ds})
				st.Violations++
			})
			rt.Fatalf("property C09 violated (replay %s):%s", replayPath("C09", "TestC09Bulk"), devText(ds))
		}
	})
}
