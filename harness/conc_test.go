package h

// Schedule-independent invariants under free-running concurrency (seeded noise at the hook points):
//   C17: a key's revision number equals the number of successful mutations it received;
//   C04: every CAS handed out is different, and the CAS a key ends with is not below any CAS a
//        call on that key returned (commit order = CAS order).

import (
	"encoding/json"
	"fmt"
	"runtime/debug"
	"strconv"
	"strings"
	"sync"
	"testing"
	"time"

	sgbucket "github.com/couchbase/sg-bucket"
	"pgregory.net/rapid"
)

type concOp struct {
	K   string `json:"k"`
	Key string `json:"key"`
	H   int    `json:"h,omitempty"`
}

type concPlan struct {
	Disk    bool       `json:"disk"`
	Handles int        `json:"handles"`
	Workers [][]concOp `json:"workers"`
	Seed    int64      `json:"seed"`
}

var concKinds = []string{"Set", "Touch", "GetAndTouchRaw", "SetXattrs", "WriteCas0", "WriteCasSeen", "Update", "Delete", "Add", "WriteSubDoc", "Remove", "UpdateXattrs", "WriteWithXattrs", "DeleteSubDocPaths", "Incr"}

func runConcPlan(p concPlan) (devs []Deviation, overlapped bool, err error) {
	w, err := NewWorld(Config{Disk: p.Disk, Handles: p.Handles, Colls: allCollNames[:1]})
	if err != nil {
		return nil, false, err
	}
	defer w.Close()
	// a live feed that runs through the whole plan: every CAS the workers were handed must arrive
	// exactly once, in increasing order (C08)
	feed, ferr := w.StartLiveFeed(FeedCfg{H: 0, C: 0})
	if ferr != nil {
		return nil, false, ferr
	}
	restore := noiseHook(p.Seed, w.Name)
	defer restore()
	var mu sync.Mutex
	success := map[string]int{}
	casSeen := map[uint64]string{}
	maxCas := map[string]uint64{}
	var dups []string
	note := func(key string, ok bool, cas uint64, what string) {
		mu.Lock()
		defer mu.Unlock()
		if ok {
			success[key]++
		}
		if ok && cas != 0 {
			if prev, dup := casSeen[cas]; dup {
				dups = append(dups, fmt.Sprintf("%#x returned by %s and by %s", cas, prev, what))
			}
			casSeen[cas] = what
			if cas > maxCas[key] {
				maxCas[key] = cas
			}
		}
	}
	var panics []string
	var wg sync.WaitGroup
	for wi, ops := range p.Workers {
		wg.Add(1)
		go func(wi int, ops []concOp) {
			defer wg.Done()
			defer func() {
				if r := recover(); r != nil {
					mu.Lock()
					panics = append(panics, fmt.Sprint(r)+"\n"+string(debug.Stack()))
					mu.Unlock()
				}
			}()
			seen := map[string]uint64{}
			for oi, op := range ops {
				ds := w.Coll(op.H%p.Handles, 0)
				what := fmt.Sprintf("w%d.%d %s", wi, oi, op.K)
				body := []byte(fmt.Sprintf(`{"w":%d,"i":%d}`, wi, oi))
				key := op.Key
				switch op.K {
				case "Set":
					e := ds.Set(key, 0, nil, body)
					note(key, e == nil, 0, what)
				case "Touch":
					_, e := ds.Touch(key, 0)
					note(key, e == nil, 0, what) // a touch keeps the CAS: not a handed-out CAS
				case "GetAndTouchRaw":
					_, cas, e := ds.GetAndTouchRaw(key, 0)
					if e == nil {
						seen[key] = cas
					}
					note(key, e == nil, 0, what)
				case "SetXattrs":
					cas, e := ds.SetXattrs(ctx, key, map[string][]byte{"_sync": []byte(fmt.Sprintf(`{"w":%d}`, wi))})
					note(key, e == nil, cas, what)
				case "WriteCas0":
					cas, e := ds.WriteCas(key, 0, 0, body, 0)
					note(key, e == nil, cas, what)
				case "WriteCasSeen":
					cas, e := ds.WriteCas(key, 0, seen[key], body, 0)
					if e == nil {
						seen[key] = cas
					}
					note(key, e == nil, cas, what)
				case "Update":
					cas, e := ds.Update(key, 0, func(cur []byte) ([]byte, *uint32, bool, error) { return body, nil, false, nil })
					note(key, e == nil, cas, what)
				case "Delete":
					e := ds.Delete(key)
					note(key, e == nil, 0, what)
				case "Remove":
					cas, e := ds.Remove(key, seen[key])
					note(key, e == nil, cas, what)
				case "Add":
					added, e := ds.Add(key, 0, body)
					note(key, e == nil && added, 0, what)
				case "WriteSubDoc":
					cas, e := ds.WriteSubDoc(ctx, key, fmt.Sprintf("p%d", wi), 0, []byte(strconv.Itoa(oi)))
					note(key, e == nil, cas, what)
				case "UpdateXattrs":
					cas, e := ds.UpdateXattrs(ctx, key, 0, seen[key], map[string][]byte{"_vv": []byte(`{"v":1}`)}, nil)
					if e == nil {
						seen[key] = cas
					}
					note(key, e == nil, cas, what)
				case "WriteWithXattrs":
					cas, e := ds.WriteWithXattrs(ctx, key, 0, seen[key], body, map[string][]byte{"_mou": []byte(`{"m":1}`)}, nil, nil)
					if e == nil {
						seen[key] = cas
					}
					note(key, e == nil, cas, what)
				case "DeleteSubDocPaths":
					e := ds.DeleteSubDocPaths(ctx, key, "_vv")
					note(key, e == nil, 0, what)
				case "Incr":
					_, e := ds.Incr("ctr", 1, 1, 0)
					note("ctr", e == nil, 0, what)
				}
				if _, cas, e := ds.GetRaw(key); e == nil {
					seen[key] = cas
				}
			}
		}(wi, ops)
	}
	wg.Wait()
	restore()
	overlapped = len(p.Workers) >= 2
	for _, pn := range panics {
		devs = append(devs, Deviation{Clause: "conc.panic", Props: []string{"C17", "C04", "C20"}, Sig: "conc.panic", Msg: "worker panicked: " + pn})
	}
	for _, d := range dups {
		devs = append(devs, Deviation{Clause: "conc.cas.dup", Props: []string{"C04"}, Sig: "conc.cas.dup", Msg: "the same CAS was handed out twice: " + d})
	}
	ds := w.Coll(0, 0)
	// the feed: a sentinel write marks the end (FIFO), then order and completeness
	if e := ds.SetRaw(sentinelPrefix, 0, nil, []byte("s")); e == nil {
		_, scas, _ := ds.GetRaw(sentinelPrefix)
		if !feed.waitCas(scas, 20*time.Second) {
			devs = append(devs, Deviation{Clause: "conc.feed.dead", Props: []string{"C08", "C16"}, Sig: "conc.feed.dead", Msg: "the live feed never delivered a write made after all workers had finished"})
		} else {
			var last uint64
			got := map[uint64]int{}
			for _, ev := range feed.take() {
				if ev.Opcode != sgbucket.FeedOpMutation && ev.Opcode != sgbucket.FeedOpDeletion {
					continue
				}
				if strings.HasPrefix(string(ev.Key), sentinelPrefix) {
					continue
				}
				got[ev.Cas]++
				if ev.Cas < last {
					devs = append(devs, Deviation{Clause: "conc.feed.order", Props: []string{"C08"}, Sig: "conc.feed.order", Msg: fmt.Sprintf("the live feed received the event for %q with CAS %#x after an event with CAS %#x: events of one collection arrive out of CAS order under concurrent writers", ev.Key, ev.Cas, last)})
					break
				}
				last = ev.Cas
			}
			mu.Lock()
			for cas, what := range casSeen {
				if got[cas] != 1 {
					devs = append(devs, Deviation{Clause: "conc.feed.once", Props: []string{"C08"}, Sig: "conc.feed.once", Msg: fmt.Sprintf("the mutation that was handed CAS %#x (%s) was delivered %d times to the live feed", cas, what, got[cas])})
					break
				}
			}
			mu.Unlock()
		}
	}
	feed.Stop()
	for key, n := range success {
		st, _ := Observe(ds, key, []string{"_sync", "_vv", "_mou"})
		if !st.Present {
			devs = append(devs, Deviation{Clause: "conc.rev", Props: []string{"C17"}, Sig: "conc.rev", Msg: fmt.Sprintf("%d mutations of %q succeeded but the key does not exist", n, key)})
			continue
		}
		if int(st.Rev) != n {
			devs = append(devs, Deviation{Clause: "conc.rev", Props: []string{"C17"}, Sig: "conc.rev", Msg: fmt.Sprintf("key %q received %d successful mutations from %d concurrent workers but its revision number is %d", key, n, len(p.Workers), st.Rev)})
		}
		if st.Cas < maxCas[key] {
			devs = append(devs, Deviation{Clause: "conc.cas.order", Props: []string{"C04"}, Sig: "conc.cas.order", Msg: fmt.Sprintf("key %q ends with CAS %#x although a call on it returned the larger CAS %#x: a later write carries a smaller CAS than an earlier one", key, st.Cas, maxCas[key])})
		}
	}
	return
}

func genConcPlan(rt *rapid.T) concPlan {
	p := concPlan{Disk: chance(rt, 40, "disk"), Handles: rapid.IntRange(1, 3).Draw(rt, "handles"), Seed: int64(rapid.IntRange(1, 1<<30).Draw(rt, "seed"))}
	nw := rapid.IntRange(2, 6).Draw(rt, "workers")
	for wi := 0; wi < nw; wi++ {
		n := rapid.IntRange(3, 25).Draw(rt, "nops")
		var ops []concOp
		for i := 0; i < n; i++ {
			ops = append(ops, concOp{K: pick(rt, concKinds, "k"), Key: pick(rt, []string{"a", "a", "b"}, "key"), H: rapid.IntRange(0, p.Handles-1).Draw(rt, "h")})
		}
		p.Workers = append(p.Workers, ops)
	}
	return p
}

func concTest(t *testing.T, prop, test, rule string) {
	st := statsFor(prop, test)
	st.Rule = rule
	judge := func(devs []Deviation) []Deviation {
		var out []Deviation
		for _, d := range devs {
			if !d.Has(prop) {
				continue
			}
			if id, ok := tolerated(prop, d); ok {
				st.KnownHits[id]++
				continue
			}
			out = append(out, d)
		}
		return out
	}
	if replayMode() {
		rp := loadReplay(test)
		if rp == nil {
			t.Skip("replay file is for another test")
		}
		var p concPlan
		if err := json.Unmarshal(rp.Extra, &p); err != nil {
			t.Fatal(err)
		}
		for i := 0; i < 40; i++ {
			p.Seed += int64(i)
			devs, _, err := runConcPlan(p)
			if err != nil {
				t.Fatalf("infrastructure: %v", err)
			}
			if ds := judge(devs); len(ds) > 0 {
				t.Fatalf("property %s violated by replay (attempt %d):%s", prop, i, devText(ds))
			}
		}
		st.Case(1, true, func() any { return p })
		return
	}
	var once sync.Once
	rapid.Check(t, func(rt *rapid.T) {
		p := genConcPlan(rt)
		devs, overlapped, err := runConcPlan(p)
		if err != nil {
			rt.Fatalf("INFRA: %v", err)
		}
		b, _ := json.Marshal(p)
		st.Case(fnvString(string(b)), overlapped && len(p.Workers) >= 3, func() any { return p })
		if ds := judge(devs); len(ds) > 0 {
			once.Do(func() {
				saveReplay(&Replay{Property: prop, Test: test, Extra: b, Expect: ds})
				st.Violations++
			})
			rt.Fatalf("property %s violated (replay %s):%s", prop, replayPath(prop, test), devText(ds))
		}
	})
}

const concRule = "generated plans of 2-6 goroutines x 3-25 mutations (Set, Touch, GetAndTouchRaw, SetXattrs, WriteCas with 0 / the CAS last seen, Update, Delete, Remove, Add, WriteSubDoc, UpdateXattrs, WriteWithXattrs, DeleteSubDocPaths, Incr) on two shared keys through 1-3 handles, free-running with seeded scheduling noise at the hook points; afterwards each key's revision number must equal the number of calls on it that reported success, all returned CAS values must differ, and a key's final CAS must not be below any CAS a call on it returned; non-trivial = at least 3 workers; distinct by plan"

func TestC17Race(t *testing.T) { concTest(t, "C17", "TestC17Race", concRule) }
func TestC04Race(t *testing.T) { concTest(t, "C04", "TestC04Race", concRule) }
func TestC08Race(t *testing.T) { concTest(t, "C08", "TestC08Race", concRule) }
