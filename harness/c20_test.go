package h

// C20 — shutdown is safe: no panic, deadlock or leaked goroutine at any timing.
// Every scenario runs in its own child process: a panic in a background goroutine kills the
// child, a deadlock is diagnosed from the goroutine dump the watchdog requests (SIGQUIT).

import (
	"bytes"
	"encoding/json"
	"fmt"
	"os"
	"os/exec"
	"runtime"
	"strings"
	"sync"
	"syscall"
	"testing"
	"time"

	sgbucket "github.com/couchbase/sg-bucket"
	"github.com/couchbaselabs/rosmar"
	"pgregory.net/rapid"
)

type shutCase struct {
	Kind     string `json:"kind"` // expiryFire | expiryRun | writer | feedStart | feedDeliver | updateAfter | dropFeed
	Disk     bool   `json:"disk"`
	Shutdown string `json:"shutdown"` // CloseAndDelete | Close (last handle of an on-disk bucket) | DropDataStore
	Handles  int    `json:"handles"`
	Release  string `json:"release"` // before | after: release the held activity before / after the shutdown call returned (or blocked)
	// storm (free-running) scenarios only
	Workers []string `json:"workers,omitempty"`
	After   int      `json:"after,omitempty"` // shut down after this many completed client calls
	Seed    int64    `json:"seed,omitempty"`
	Cp      bool     `json:"cp,omitempty"`  // feedDeliver / dropFeed: the feed has a CheckpointPrefix
	TTL     bool     `json:"ttl,omitempty"` // writer: the held write carries a 1 s expiry (the bucket's first), and the child lives past it
	// kind "lifecycle" (C13): a lifecycle history run in a process of its own, so that a panic on one of
	// rosmar's own goroutines (expiry timer) is an observation and not the end of the test run
	Steps []Op `json:"steps,omitempty"`
}

type shutResult struct {
	Devs     []Deviation `json:"devs"`
	InFlight bool        `json:"inFlight"` // the background activity was provably held when shutdown ran
	Log      []string    `json:"log"`
}

func rosmarGoroutines() []string {
	buf := make([]byte, 1<<20)
	n := runtime.Stack(buf, true)
	var out []string
	for _, g := range strings.Split(string(buf[:n]), "\n\n") {
		// (the goroutine that waits for a feed's Terminator belongs to the caller's channel: it ends
		// when the caller closes it, and is not counted)
		if strings.Contains(g, "rosmar.(*dcpFeed).run(") || strings.Contains(g, "rosmar.(*expiryManager).runExpiry(") || strings.Contains(g, "rosmar.(*Collection).updateView(") {
			first := strings.SplitN(g, "\n", 2)[0]
			what := "feed loop"
			if strings.Contains(g, "runExpiry") {
				what = "expiry run"
			} else if strings.Contains(g, "updateView") {
				what = "view update"
			}
			out = append(out, what+": "+first)
		}
	}
	return out
}

// runShutdownScenario runs inside the child.
func runShutdownScenario(c shutCase) (res shutResult) {
	if c.Kind == "storm" {
		return runStormScenario(c)
	}
	if c.Kind == "openRace" {
		return runOpenRaceScenario(c)
	}
	if c.Kind == "closeRace" {
		return runCloseRaceScenario(c)
	}
	if c.Kind == "lifecycle" {
		w := runLifecycle(c.Steps)
		return shutResult{Devs: w.devs, InFlight: true, Log: w.trace}
	}
	bad := func(clause, f string, a ...any) {
		res.Devs = append(res.Devs, Deviation{Clause: clause, Props: []string{"C20"}, Sig: clause + "|" + c.Kind, Msg: fmt.Sprintf(f, a...)})
	}
	logf := func(f string, a ...any) { res.Log = append(res.Log, fmt.Sprintf(f, a...)) }
	cfg := Config{Disk: c.Disk, Handles: c.Handles, Colls: allCollNames[:2]}
	w, err := NewWorld(cfg)
	if err != nil {
		bad("shut.setup", "%v", err)
		return
	}
	// an unrelated bucket that must stay usable
	other, err := NewWorld(Config{Handles: 1, Colls: allCollNames[:1]})
	if err != nil {
		bad("shut.setup", "%v", err)
		return
	}
	s := NewSched(w.Name)
	s.Grace = 300 * time.Millisecond
	defer s.Stop()
	ds := w.Coll(0, 0)
	_ = ds.Set("seed", 0, nil, []byte(`{"k":1}`))
	var feedDone chan struct{}
	held := "" // gate / lane that is held
	switch c.Kind {
	case "expiryFire", "expiryRun":
		gate := "expiry.fire"
		if c.Kind == "expiryRun" {
			gate = "expire.betweenSelectAndDelete"
		}
		s.Gate(gate)
		_ = ds.Set("soon", nowSec()+1, nil, []byte(`{"v":1}`))
		if !s.WaitGate(gate, 1, 8*time.Second) {
			bad("shut.setup", "expiry timer never fired")
			return
		}
		held = "gate:" + gate
	case "writer":
		wexp := uint32(0)
		if c.TTL {
			wexp = nowSec() + 1
		}
		st := s.Start("W", []string{"cas.beforePost"}, func() { _ = ds.Set("w", wexp, nil, []byte(`{"w":1}`)) })
		logf("writer -> %s", st)
		held = "lane:W"
	case "feedStart":
		feedDone = make(chan struct{})
		st := s.Start("F", []string{"feed.afterBackfill"}, func() {
			args := sgbucket.FeedArguments{ID: "f", Backfill: 0, Terminator: make(chan bool), DoneChan: feedDone}
			_ = w.RColl(0, 0).StartDCPFeed(ctx, args, func(sgbucket.FeedEvent) bool { return true }, nil)
		})
		logf("feed start -> %s", st)
		held = "lane:F"
	case "feedDeliver", "dropFeed":
		feedDone = make(chan struct{})
		s.Gate("feed.callback")
		col := 0
		if c.Kind == "dropFeed" {
			col = 1
		}
		args := sgbucket.FeedArguments{ID: "f", Backfill: sgbucket.FeedNoBackfill, Terminator: make(chan bool), DoneChan: feedDone}
		if c.Cp {
			args.CheckpointPrefix = "cp20"
		}
		_ = w.RColl(0, col).StartDCPFeed(ctx, args, func(sgbucket.FeedEvent) bool {
			s.onHook("feed.callback", w.Name)
			return true
		}, nil)
		_ = w.Coll(0, col).Set("e1", 0, nil, []byte(`{"e":1}`))
		_ = w.Coll(0, col).Set("e2", 0, nil, []byte(`{"e":2}`))
		if !s.WaitGate("feed.callback", 1, 5*time.Second) {
			bad("shut.setup", "feed callback never invoked")
			return
		}
		held = "gate:feed.callback"
	case "updateAfter":
		vs := ds.(sgbucket.ViewStore)
		_ = vs.PutDDoc(ctx, "dd", designDoc(map[string]ViewSpec{"v": {Emits: []string{"id|one"}}}))
		_, _ = vs.View(ctx, "dd", "v", map[string]any{"stale": false})
		_ = ds.Set("more", 0, nil, []byte(`{"k":2}`))
		s.Gate("view.updateAfter.start")
		_, _ = vs.View(ctx, "dd", "v", map[string]any{"stale": "updateAfter"})
		if !s.WaitGate("view.updateAfter.start", 1, 5*time.Second) {
			bad("shut.setup", "updateAfter goroutine never started")
			return
		}
		held = "gate:view.updateAfter.start"
	}
	res.InFlight = held != ""
	release := func() {
		switch {
		case strings.HasPrefix(held, "gate:"):
			s.OpenGate(strings.TrimPrefix(held, "gate:"))
		case strings.HasPrefix(held, "lane:"):
			st := s.Resume(strings.TrimPrefix(held, "lane:"), nil)
			if st == "running" {
				st = s.Await(strings.TrimPrefix(held, "lane:"))
			}
			logf("released %s -> %s", held, st)
			if st == "hang" {
				bad("shut.deadlock", "the %s held during shutdown never finished after being released", held)
			}
		}
		held = ""
	}
	if c.Release == "before" {
		// release first, shut down immediately after: free-running race
		go release()
	}
	// the shutdown call, in a lane (it may have to wait for the held activity)
	st := s.Start("S", nil, func() {
		switch c.Shutdown {
		case "CloseAndDelete":
			_ = w.Handles[len(w.Handles)-1].CloseAndDelete(ctx)
		case "Close":
			for _, b := range w.Handles {
				b.Close(ctx)
			}
		case "DropDataStore":
			_ = w.Handles[len(w.Handles)-1].DropDataStore(dsName(allCollNames[1]))
		}
	})
	logf("%s -> %s", c.Shutdown, st)
	if c.Release != "before" {
		release()
	}
	if st == "running" {
		st = s.Await("S")
		logf("%s finally -> %s", c.Shutdown, st)
	}
	if st == "hang" {
		bad("shut.deadlock", "%s never returned while a %s activity was in flight (log %v)", c.Shutdown, c.Kind, res.Log)
		return
	}
	time.Sleep(150 * time.Millisecond)
	if held != "" {
		release()
	}
	if c.TTL {
		time.Sleep(2500 * time.Millisecond) // past the expiry of the held write: a timer armed after the shutdown would fire now
	}
	s.Stop()
	// the unrelated bucket and (for a drop) the surviving parts still work: no lock left held
	probe := make(chan error, 1)
	go func() { probe <- other.Coll(0, 0).Set("p", 0, nil, []byte(`1`)) }()
	select {
	case err := <-probe:
		if err != nil {
			bad("shut.otherbucket", "a write to an unrelated bucket failed after the shutdown: %v", err)
		}
	case <-time.After(10 * time.Second):
		bad("shut.deadlock", "a write to an unrelated bucket blocks after the shutdown: a lock was left held")
	}
	if c.Shutdown == "DropDataStore" {
		p2 := make(chan error, 1)
		go func() { p2 <- w.Coll(0, 0).Set("p", 0, nil, []byte(`1`)) }()
		select {
		case err := <-p2:
			if err != nil {
				bad("shut.survivor", "a write to the surviving collection failed after the drop: %v", err)
			}
		case <-time.After(10 * time.Second):
			bad("shut.deadlock", "a write to the surviving collection blocks after DropDataStore")
		}
	} else {
		// calls that lost the race return an error, never panic
		for hi, b := range w.Handles {
			if p := safely(func() {
				if d := b.DefaultDataStore(); d != nil {
					_ = d.Set("late", 0, nil, []byte(`1`))
					_, _, _ = d.GetRaw("late")
				}
			}); p != "" {
				bad("shut.panic", "a call on handle %d after %s panicked: %s", hi, c.Shutdown, p)
			}
		}
		// once the store is shut down no feed / timer / view goroutine may remain
		deadline := time.Now().Add(3 * time.Second)
		var left []string
		for {
			left = rosmarGoroutines()
			if len(left) == 0 || time.Now().After(deadline) {
				break
			}
			time.Sleep(50 * time.Millisecond)
		}
		if len(left) > 0 {
			bad("shut.leak", "%d rosmar goroutine(s) still running 3 s after %s: %v", len(left), c.Shutdown, left)
		}
		if feedDone != nil {
			select {
			case <-feedDone:
			case <-time.After(3 * time.Second):
				bad("shut.feeddone", "the feed's done channel was not closed after %s", c.Shutdown)
			}
		}
	}
	other.Close()
	return
}

// TestC20Child: entry point of the child process.
func TestC20Child(t *testing.T) {
	raw := os.Getenv("VERIF_C20")
	if raw == "" {
		t.Skip("not a child")
	}
	var c shutCase
	if err := json.Unmarshal([]byte(raw), &c); err != nil {
		t.Fatal(err)
	}
	_ = rosmar.ErrBucketClosed
	res := runShutdownScenario(c)
	b, _ := json.Marshal(res)
	os.Stdout.Write(append(append([]byte("RESULT "), b...), '\n'))
	os.Exit(0)
}

// runShutdownChild runs one scenario in a child and interprets how it ended.
func runShutdownChild(c shutCase) (shutResult, error) {
	b, _ := json.Marshal(c)
	cmd := exec.Command(os.Args[0], "-test.run=^TestC20Child$", "-test.count=1", "-test.timeout=120s")
	cmd.Env = append(os.Environ(), "VERIF_C20="+string(b), "VERIF_STATS=", "VERIF_REPLAY=")
	var stdout, stderr bytes.Buffer
	cmd.Stdout, cmd.Stderr = &stdout, &stderr
	if err := cmd.Start(); err != nil {
		return shutResult{}, err
	}
	done := make(chan error, 1)
	go func() { done <- cmd.Wait() }()
	var werr error
	timedOut := false
	select {
	case werr = <-done:
	case <-time.After(75 * time.Second):
		timedOut = true
		_ = cmd.Process.Signal(syscall.SIGQUIT)
		select {
		case werr = <-done:
		case <-time.After(10 * time.Second):
			_ = cmd.Process.Kill()
			werr = <-done
		}
	}
	out := stdout.String()
	if i := strings.Index(out, "RESULT "); i >= 0 {
		var res shutResult
		line := out[i+7:]
		if j := strings.IndexByte(line, '\n'); j >= 0 {
			line = line[:j]
		}
		if json.Unmarshal([]byte(line), &res) == nil {
			return res, nil
		}
	}
	all := out + stderr.String()
	res := shutResult{InFlight: true}
	switch {
	case strings.Contains(all, "panic:") && !timedOut:
		msg := all[strings.Index(all, "panic:"):]
		if len(msg) > 1200 {
			msg = msg[:1200]
		}
		props := []string{"C20"}
		if c.Kind == "lifecycle" {
			props = []string{"C13", "C20"} // handles opened and closed in turn: whatever panics took every other handle with it
		}
		res.Devs = append(res.Devs, Deviation{Clause: "shut.panic", Props: props, Sig: "shut.panic|" + c.Kind, Msg: fmt.Sprintf("the process panicked during / after %s with a %s activity in flight:\n%s", c.Shutdown, c.Kind, msg)})
	case timedOut:
		if strings.Contains(all, "sync.(*Mutex).Lock") && strings.Contains(all, "rosmar.") {
			i := strings.Index(all, "sync.(*Mutex).Lock")
			lo, hi := i-600, i+900
			if lo < 0 {
				lo = 0
			}
			if hi > len(all) {
				hi = len(all)
			}
			res.Devs = append(res.Devs, Deviation{Clause: "shut.deadlock", Props: []string{"C20"}, Sig: "shut.deadlock|" + c.Kind, Msg: fmt.Sprintf("the scenario hung; the goroutine dump shows goroutines waiting for a rosmar mutex:\n...%s...", all[lo:hi])})
		} else {
			return res, fmt.Errorf("child timed out without a rosmar mutex wait in its dump: %.600s", all)
		}
	default:
		return res, fmt.Errorf("child ended without a result: %v %.600s", werr, all)
	}
	return res, nil
}

func genShutCase(rt *rapid.T) shutCase {
	if chance(rt, 8, "openRace") {
		// several OpenBucket calls race for a closed on-disk bucket that holds a pending expiry; all
		// handles are closed again before it is due
		return shutCase{Kind: "openRace", Disk: true, Handles: rapid.IntRange(2, 6).Draw(rt, "openers"), Shutdown: "Close", Seed: int64(rapid.IntRange(1, 1<<30).Draw(rt, "seed"))}
	}
	if chance(rt, 16, "closeRace") {
		// handles opened and closed again, round after round, under goroutines calling through them
		c := shutCase{Kind: "closeRace", Handles: 1, Disk: chance(rt, 30, "disk"), Shutdown: "Close"}
		n := rapid.IntRange(2, 5).Draw(rt, "nworkers")
		for i := 0; i < n; i++ {
			c.Workers = append(c.Workers, pick(rt, closeRaceWorkerKinds, "worker"))
		}
		if chance(rt, 50, "viewmix") {
			// design-document calls, view queries and writers together through one handle
			c.Workers = append([]string{"view", "view", "kv"}, c.Workers[:len(c.Workers)-2]...)
		}
		c.After = rapid.IntRange(0, 100).Draw(rt, "rounds")
		c.Seed = int64(rapid.IntRange(1, 1<<30).Draw(rt, "seed"))
		return c
	}
	if chance(rt, 35, "storm") {
		c := shutCase{Kind: "storm", Handles: rapid.IntRange(1, 3).Draw(rt, "handles"), Disk: chance(rt, 50, "disk")}
		n := rapid.IntRange(2, 6).Draw(rt, "nworkers")
		for i := 0; i < n; i++ {
			c.Workers = append(c.Workers, pick(rt, stormWorkerKinds, "worker"))
		}
		if chance(rt, 25, "viewmix") {
			c.Workers = append([]string{"view", "view", "kv"}, c.Workers[:len(c.Workers)-2]...)
			c.Handles = 1
		}
		c.After = rapid.IntRange(0, 120).Draw(rt, "after")
		c.Seed = int64(rapid.IntRange(1, 1<<30).Draw(rt, "seed"))
		c.Shutdown = pick(rt, []string{"CloseAndDelete", "CloseAndDelete", "DropDataStore"}, "shutdown")
		if c.Disk && chance(rt, 50, "close") {
			c.Shutdown = "Close"
		}
		return c
	}
	c := shutCase{Kind: pick(rt, []string{"expiryFire", "expiryRun", "writer", "feedStart", "feedDeliver", "updateAfter", "dropFeed"}, "kind"), Handles: rapid.IntRange(1, 2).Draw(rt, "handles")}
	c.Disk = chance(rt, 40, "disk")
	c.Shutdown = "CloseAndDelete"
	if c.Disk && chance(rt, 50, "close") {
		c.Shutdown = "Close"
	}
	if c.Kind == "dropFeed" {
		c.Shutdown = "DropDataStore"
	}
	c.Release = pick(rt, []string{"after", "after", "before"}, "release")
	c.Cp = (c.Kind == "feedDeliver" || c.Kind == "dropFeed") && chance(rt, 50, "cp")
	c.TTL = c.Kind == "writer" && c.Shutdown != "DropDataStore" && chance(rt, 50, "ttl")
	return c
}

func TestC20(t *testing.T) {
	st := statsFor("C20", "TestC20")
	st.Rule = "each generated scenario runs in its own child process: a background activity is held at an instrumented point (expiry timer at its entry / between selecting and deleting, a writer between commit and post, StartDCPFeed between backfill and registration, a feed callback mid-delivery, the stale=updateAfter goroutine at its start), then CloseAndDelete / the last Close of an on-disk bucket / DropDataStore runs through any handle, and the held activity is released before or after; the child must not panic or deadlock (watchdog + goroutine dump), later calls must return errors, an unrelated bucket must stay usable, no feed / timer / view goroutine may remain and the feed's done channel must close; 35% of the scenarios are free-running storms (2-6 generated worker goroutines, shutdown after a generated number of calls), 8% concurrent opens of a closed on-disk bucket with a pending expiry, 12% close races (a further handle opened 100-200 times, 2-5 goroutines calling through it, closed under them after 0-400 us); non-trivial = the activity was provably held (storms / races: calls were in flight) when the shutdown call started; distinct by scenario parameters"
	if replayMode() {
		rp := loadReplay("TestC20")
		if rp == nil {
			t.Skip("replay file is for another test")
		}
		var c shutCase
		if err := json.Unmarshal(rp.Extra, &c); err != nil {
			t.Fatal(err)
		}
		tries := 3
		if c.Kind == "storm" || c.Kind == "closeRace" {
			tries = 12 // free-running: the scenario replays, the interleaving does not
		}
		for i := 0; i < tries; i++ {
			res, err := runShutdownChild(c)
			if err != nil {
				t.Fatalf("infrastructure: %v", err)
			}
			if len(res.Devs) > 0 {
				t.Fatalf("property C20 violated by replay:%s", devText(res.Devs))
			}
		}
		st.Case(1, true, func() any { return c })
		return
	}
	var once sync.Once
	rapid.Check(t, func(rt *rapid.T) {
		// several children at a time
		n := 6
		cases := make([]shutCase, n)
		for i := range cases {
			cases[i] = genShutCase(rt)
		}
		results := make([]shutResult, n)
		errs := make([]error, n)
		var wg sync.WaitGroup
		for i := range cases {
			wg.Add(1)
			go func(i int) {
				defer wg.Done()
				results[i], errs[i] = runShutdownChild(cases[i])
			}(i)
		}
		wg.Wait()
		for i, res := range results {
			if errs[i] != nil {
				rt.Fatalf("INFRA: %v", errs[i])
			}
			b, _ := json.Marshal(cases[i])
			st.Case(fnvString(string(b)), res.InFlight, func() any { return map[string]any{"case": cases[i], "log": res.Log} })
			st.Label("kind", cases[i].Kind+"/"+cases[i].Shutdown)
			var ds []Deviation
			for _, d := range res.Devs {
				if id, ok := tolerated("C20", d); ok {
					st.KnownHits[id]++
					continue
				}
				ds = append(ds, d)
			}
			if len(ds) > 0 {
				once.Do(func() {
					saveReplay(&Replay{Property: "C20", Test: "TestC20", Extra: b, Expect: ds})
					st.Violations++
				})
				rt.Fatalf("property C20 violated (replay %s): %+v:%s", replayPath("C20", "TestC20"), cases[i], devText(ds))
			}
		}
	})
}
