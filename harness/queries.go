package h

// C19: a family of SQL queries over $_keyspace with a Go twin evaluated over the model.

import (
	"encoding/hex"
	"encoding/json"
	"fmt"
	"sort"
	"strings"
	"unicode/utf8"

	sgbucket "github.com/couchbase/sg-bucket"
	"pgregory.net/rapid"
)

type QueryOp struct {
	Kind  string   `json:"kind"` // all | byid | like | in | count | type | ngt | xseq | proj
	Str   string   `json:"str,omitempty"`
	Num   float64  `json:"num,omitempty"`
	IDs   []string `json:"ids,omitempty"`
	Order bool     `json:"order,omitempty"`
	Lead  int      `json:"lead,omitempty"` // proj: 0 = the never-NULL columns first, 1 = the nullable columns first, 2 = one nullable column on each side
	Iter  string   `json:"iter,omitempty"` // next | bytes | one | early | hold (one row fetched, iterator left open)
}

const qCols = `json_quote(id) AS id, json_quote(hex(body)) AS body, json_quote(hex(coalesce(xattrs,''))) AS xattrs`

func (q QueryOp) SQL() (string, map[string]any) {
	args := map[string]any{}
	var s string
	switch q.Kind {
	case "all":
		s = `SELECT ` + qCols + ` FROM $_keyspace`
	case "byid":
		s = `SELECT ` + qCols + ` FROM $_keyspace WHERE id = $ID`
		args["ID"] = q.Str
	case "like":
		s = `SELECT ` + qCols + ` FROM $_keyspace WHERE id LIKE $PAT`
		args["PAT"] = q.Str
	case "in":
		quoted := make([]string, len(q.IDs))
		for i, id := range q.IDs {
			quoted[i] = "'" + strings.ReplaceAll(id, "'", "''") + "'"
		}
		s = `SELECT ` + qCols + ` FROM $_keyspace WHERE id IN (` + strings.Join(quoted, ",") + `)`
	case "proj":
		// two projected properties that are SQL NULL (hence absent from the row) for documents
		// that do not have them
		// (the row is a JSON object, so the order of the columns does not change what is expected;
		// S-C19l: a row whose FIRST column is NULL)
		nCol := `(CASE WHEN json_valid(CAST(body AS TEXT)) THEN CAST(body AS TEXT)->'$.n' END) AS n`
		sCol := `(CASE WHEN xattrs IS NOT NULL AND json_valid(CAST(xattrs AS TEXT)) THEN CAST(xattrs AS TEXT)->'$._sync.seq' END) AS s`
		switch q.Lead {
		case 1:
			s = `SELECT ` + nCol + `, ` + sCol + `, ` + qCols + ` FROM $_keyspace`
		case 2:
			s = `SELECT ` + sCol + `, ` + qCols + `, ` + nCol + ` FROM $_keyspace`
		default:
			s = `SELECT ` + qCols + `, ` + nCol + `, ` + sCol + ` FROM $_keyspace`
		}
	case "rawbody":
		// the body projected as it is stored (JSON text inside the row), for documents whose body is JSON
		s = `SELECT ` + qCols + `, body AS doc FROM $_keyspace WHERE json_valid(CAST(body AS TEXT)) AND instr(body, x'00') = 0`
	case "noxattrs":
		// documents without extended attributes: the column is NULL for them (not an empty object)
		s = `SELECT ` + qCols + ` FROM $_keyspace WHERE xattrs IS NULL`
	case "count":
		s = `SELECT COUNT(*) AS n FROM $_keyspace`
	case "type":
		s = `SELECT ` + qCols + ` FROM $_keyspace WHERE (CASE WHEN json_valid(CAST(body AS TEXT)) THEN CAST(body AS TEXT)->>'$.type' END) = $T`
		args["T"] = q.Str
	case "ngt":
		s = `SELECT ` + qCols + ` FROM $_keyspace WHERE (CASE WHEN json_valid(CAST(body AS TEXT)) AND json_type(CAST(body AS TEXT),'$.n') IN ('integer','real') THEN CAST(body AS TEXT)->>'$.n' END) > $N`
		args["N"] = q.Num
	case "xseq":
		s = `SELECT ` + qCols + ` FROM $_keyspace WHERE (CASE WHEN xattrs IS NOT NULL AND json_valid(CAST(xattrs AS TEXT)) AND json_type(CAST(xattrs AS TEXT),'$._sync.seq') IN ('integer','real') THEN CAST(xattrs AS TEXT)->>'$._sync.seq' END) >= $N`
		args["N"] = q.Num
	}
	if q.Order && q.Kind != "count" {
		s += ` ORDER BY id`
	}
	return s, args
}

type qrow struct {
	ID   string
	Body []byte
	X    map[string]string
	N, S *string // proj: projected body.n / xattrs._sync.seq as JSON text, nil = absent from the row
	Doc  *string // rawbody: the body as projected into the row
}

func (r qrow) String() string {
	names := make([]string, 0, len(r.X))
	for k := range r.X {
		names = append(names, k)
	}
	sort.Strings(names)
	s := fmt.Sprintf("%q body=%q", r.ID, r.Body)
	if r.N != nil {
		s += " n:" + *r.N
	}
	if r.S != nil {
		s += " s:" + *r.S
	}
	for _, k := range names {
		s += " " + k + "=" + r.X[k]
	}
	return s
}

// likeMatch implements the subset of LIKE used by the generator: prefix%, %, exact.
func likeMatch(pat, s string) bool {
	if strings.HasSuffix(pat, "%") {
		return strings.HasPrefix(strings.ToLower(s), strings.ToLower(strings.TrimSuffix(pat, "%")))
	}
	return strings.EqualFold(pat, s)
}

// expectedQueryRows evaluates q over the model's live documents of collection ci.
func expectedQueryRows(r *Run, ci int, q QueryOp) []qrow {
	m := r.W.Model
	var out []qrow
	for _, k := range m.Keys(ci) {
		st := m.Get(ci, k)
		if !st.HasBody() {
			continue
		}
		var doc any
		text := st.Body
		if i := strings.IndexByte(string(text), 0); i >= 0 {
			text = text[:i] // SQLite's JSON functions read the TEXT value up to the first NUL
		}
		valid := json.Unmarshal(text, &doc) == nil
		obj, _ := doc.(map[string]any)
		ok := true
		switch q.Kind {
		case "byid":
			ok = k == q.Str
		case "like":
			ok = likeMatch(q.Str, k)
		case "in":
			ok = false
			for _, id := range q.IDs {
				ok = ok || id == k
			}
		case "rawbody":
			ok = valid && len(text) == len(st.Body) && utf8.Valid(st.Body)
		case "noxattrs":
			ok = len(st.X) == 0
		case "type":
			t, isStr := obj["type"].(string)
			ok = valid && isStr && t == q.Str
		case "ngt":
			n, isNum := obj["n"].(float64)
			ok = valid && isNum && n > q.Num
		case "xseq":
			ok = false
			if raw, has := st.X["_sync"]; has {
				var sv any
				if json.Unmarshal([]byte(raw), &sv) == nil {
					if sm, isMap := sv.(map[string]any); isMap {
						if n, isNum := sm["seq"].(float64); isNum && n >= q.Num {
							ok = true
						}
					}
				}
			}
		}
		if ok {
			row := qrow{ID: k, Body: st.Body, X: st.X}
			if q.Kind == "rawbody" {
				t := string(st.Body)
				row.Doc = &t
			}
			if q.Kind == "proj" {
				if v, has := obj["n"]; valid && has {
					t := string(mustJSON(v))
					row.N = &t
				}
				if raw, has := st.X["_sync"]; has {
					var sv any
					if json.Unmarshal([]byte(raw), &sv) == nil {
						if sm, isMap := sv.(map[string]any); isMap {
							if v, has := sm["seq"]; has {
								t := string(mustJSON(v))
								row.S = &t
							}
						}
					}
				}
			}
			out = append(out, row)
		}
	}
	sort.Slice(out, func(i, j int) bool { return out[i].ID < out[j].ID })
	return out
}

func decodeQueryRow(raw []byte) (qrow, error) {
	var m struct {
		ID, Body, Xattrs *string
		N, S, Doc        json.RawMessage
	}
	if err := json.Unmarshal(raw, &m); err != nil {
		return qrow{}, fmt.Errorf("row %s is not JSON: %v", raw, err)
	}
	if m.ID == nil || m.Body == nil {
		return qrow{}, fmt.Errorf("row %s lacks id/body", raw)
	}
	body, err := hex.DecodeString(*m.Body)
	if err != nil {
		return qrow{}, err
	}
	row := qrow{ID: *m.ID, Body: body}
	if body == nil {
		row.Body = []byte{}
	}
	if m.N != nil {
		t := string(m.N)
		row.N = &t
	}
	if m.S != nil {
		t := string(m.S)
		row.S = &t
	}
	if m.Doc != nil {
		t := string(m.Doc)
		row.Doc = &t
	}
	if m.Xattrs != nil && *m.Xattrs != "" {
		xb, err := hex.DecodeString(*m.Xattrs)
		if err != nil {
			return qrow{}, err
		}
		var xm map[string]json.RawMessage
		if err := json.Unmarshal(xb, &xm); err != nil {
			return qrow{}, fmt.Errorf("xattrs column %q is not a JSON object: %v", xb, err)
		}
		if len(xm) > 0 {
			row.X = map[string]string{}
			for k, v := range xm {
				row.X[k] = string(v)
			}
		}
	}
	return row, nil
}

func sameQRow(a, b qrow) bool {
	if a.ID != b.ID || string(a.Body) != string(b.Body) || len(a.X) != len(b.X) {
		return false
	}
	for _, pr := range [][2]*string{{a.N, b.N}, {a.S, b.S}, {a.Doc, b.Doc}} {
		if (pr[0] == nil) != (pr[1] == nil) || (pr[0] != nil && !jsonEqual([]byte(*pr[0]), []byte(*pr[1]))) {
			return false
		}
	}
	for k, v := range a.X {
		if b.X[k] != v {
			return false
		}
	}
	return true
}

// runQuery executes q through the public Query API with the requested iteration style.
func runQuery(ds sgbucket.DataStore, q QueryOp) (rows [][]byte, err error) {
	rows, it, err := runQueryHold(ds, q)
	if it != nil {
		_ = it.Close()
	}
	return rows, err
}

// runQueryHold is runQuery; with the iteration style "hold" it fetches one row and returns the
// still open iterator (the caller closes it later).
func runQueryHold(ds sgbucket.DataStore, q QueryOp) (rows [][]byte, held sgbucket.QueryResultIterator, err error) {
	if q.Iter != "hold" {
		rows, err = runQuery1(ds, q)
		return rows, nil, err
	}
	stmt, args := q.SQL()
	it, err := ds.(sgbucket.QueryableStore).Query(sgbucket.SQLiteLanguage, stmt, args, sgbucket.RequestPlus, false)
	if err != nil {
		return nil, nil, err
	}
	if b := it.NextBytes(); b != nil {
		rows = append(rows, append([]byte(nil), b...))
	}
	return rows, it, nil
}

func runQuery1(ds sgbucket.DataStore, q QueryOp) (rows [][]byte, err error) {
	stmt, args := q.SQL()
	it, err := ds.(sgbucket.QueryableStore).Query(sgbucket.SQLiteLanguage, stmt, args, sgbucket.RequestPlus, false)
	if err != nil {
		return nil, err
	}
	switch q.Iter {
	case "bytes", "":
		for {
			b := it.NextBytes()
			if b == nil {
				break
			}
			rows = append(rows, append([]byte(nil), b...))
		}
	case "next":
		for {
			var m map[string]any
			if !it.Next(ctx, &m) {
				break
			}
			b, _ := json.Marshal(m)
			rows = append(rows, b)
		}
	case "one":
		var m map[string]any
		e := it.One(ctx, &m)
		if e == nil {
			b, _ := json.Marshal(m)
			rows = append(rows, b)
		} else if e != sgbucket.ErrNoRows {
			return nil, e
		}
		return rows, nil
	case "early":
		if b := it.NextBytes(); b != nil {
			rows = append(rows, append([]byte(nil), b...))
		}
	}
	return rows, it.Close()
}

// BulkSetStep writes arg.n further documents (keys m000...) into collection op.C: result sets longer
// than a handful of rows. The documents enter the model through a read-back like any other write.
func (r *Run) BulkSetStep(op Op) {
	n := 0
	if f, ok := op.Arg["n"].(float64); ok {
		n = int(f)
	} else if i, ok := op.Arg["n"].(int); ok {
		n = i
	}
	ds := r.W.Coll(op.H, op.C)
	tr := StepTrace{Op: op, Outcome: "bulk-written"}
	defer func() { r.Trace = append(r.Trace, tr) }()
	for i := 0; i < n; i++ {
		key := fmt.Sprintf("m%03d", i)
		body := []byte(fmt.Sprintf(`{"k":%d,"n":%d,"type":"t%d"}`, i%3, i, 1+i%2))
		if err := ds.Set(key, 0, nil, body); err != nil {
			r.dev("bulk.set", []string{"C01"}, "Set(%s) failed: %v", key, err)
			tr.Outcome = "DEVIATION"
			return
		}
		st, _ := Observe(ds, key, nil)
		r.W.Model.Commit(op.C, key, st, "Set")
	}
	r.SyncFeeds()
}

func init() {
	pseudoHandlers["BulkSet"] = func(r *Run, op Op) { r.BulkSetStep(op) }
	pseudoHandlers["Query"] = func(r *Run, op Op) { r.QueryStep(op) }
	pseudoHandlers["CloseIters"] = func(r *Run, op Op) {
		r.closeIters()
		r.Trace = append(r.Trace, StepTrace{Op: op, Outcome: "iterators-closed"})
	}
}

// heldIter: an iterator a "hold" query left open after its first row, with what the collection
// held when the query was made.
type heldIter struct {
	it    sgbucket.QueryResultIterator
	c     int
	kind  string
	first string            // id of the row already fetched ("" = none)
	want  map[string]uint64 // id -> CAS of every row the query had to return when it was made
}

// closeIters drains and closes the iterators "hold" queries left open. Whatever was written in the
// meantime, a document that matched when the query was made and has not been touched since is
// returned exactly once, and no document twice.
func (r *Run) closeIters() {
	for _, h := range r.heldIters {
		seen := map[string]int{}
		if h.first != "" {
			seen[h.first]++
		}
		bad := false
		for i := 0; i < 100000; i++ {
			b := h.it.NextBytes()
			if b == nil {
				break
			}
			row, err := decodeQueryRow(b)
			if err != nil {
				bad = true
				break
			}
			seen[row.ID]++
		}
		_ = h.it.Close()
		if bad || r.W.Model.Colls[h.c].Dropped {
			continue
		}
		for id, n := range seen {
			if n > 1 {
				r.dev("query.held", []string{"C19"}, "a %s query over %s whose iterator was left open across later writes returned %q %d times", h.kind, r.W.Cfg.Colls[h.c], id, n)
				break
			}
		}
		for id, cas := range h.want {
			if st := r.W.Model.Get(h.c, id); st.HasBody() && st.Cas == cas && seen[id] != 1 {
				r.dev("query.held", []string{"C19"}, "a %s query over %s whose iterator was left open across later writes returned %q %d times, although it matched when the query was made and has not been touched since", h.kind, r.W.Cfg.Colls[h.c], id, seen[id])
				break
			}
		}
	}
	r.heldIters = nil
}

// QueryStep runs the query and compares it with the twin.
func (r *Run) QueryStep(op Op) {
	q := *op.Query
	w := r.W
	c19 := []string{"C19"}
	tr := StepTrace{Op: op, Outcome: "rows-equal"}
	defer func() { r.Trace = append(r.Trace, tr) }()
	nDev := len(r.Devs)
	defer func() {
		if len(r.Devs) > nDev {
			tr.Outcome = "DEVIATION"
		}
	}()
	if q.Iter == "hold" && len(r.heldIters) >= 2 {
		q.Iter = "early" // (a few open iterators at most: each holds a pooled connection)
	}
	raw, held, err := runQueryHold(w.Coll(op.H, op.C), q)
	if err != nil {
		r.dev("query.err", c19, "query %s failed: %v", q.Kind, err)
		return
	}
	var holding *heldIter
	if held != nil {
		// stays open while the history goes on: later queries must still see the current documents
		r.heldIters = append(r.heldIters, heldIter{it: held, c: op.C, kind: q.Kind, want: map[string]uint64{}})
		holding = &r.heldIters[len(r.heldIters)-1]
	}
	want := expectedQueryRows(r, op.C, q)
	// sentinel / checkpoint documents written by the harness itself are not part of the model
	filter := func(id string) bool { return strings.HasPrefix(id, sentinelPrefix) || strings.HasPrefix(id, "cp:") }
	if q.Kind == "count" {
		var m struct{ N float64 }
		if len(raw) != 1 || json.Unmarshal(raw[0], &m) != nil {
			r.dev("query.count.shape", c19, "COUNT(*) returned %d rows: %s", len(raw), raw)
			return
		}
		extra := r.countHarnessDocs(op.C)
		if int(m.N) != len(want)+extra {
			r.dev("query.count", c19, "COUNT(*) over %s = %v, the collection has %d live documents", w.Cfg.Colls[op.C], m.N, len(want))
		}
		tr.Prior = fmt.Sprintf("rows=%d", len(want))
		return
	}
	var got []qrow
	for _, b := range raw {
		row, err := decodeQueryRow(b)
		if err != nil {
			r.dev("query.row", c19, "%v", err)
			return
		}
		if filter(row.ID) {
			continue
		}
		got = append(got, row)
	}
	tr.Prior = fmt.Sprintf("rows=%d", len(want))
	if holding != nil {
		for _, wr := range want {
			holding.want[wr.ID] = r.W.Model.Get(op.C, wr.ID).Cas
		}
		if len(got) == 1 {
			holding.first = got[0].ID
		}
	}
	switch q.Iter {
	case "one", "early", "hold":
		// at most one row, which must be one of the expected rows (the first if ordered)
		if len(got) > 1 {
			r.dev("query.one", c19, "%s iteration returned %d rows", q.Iter, len(got))
		}
		if len(got) == 1 {
			found := false
			for i, wr := range want {
				if sameQRow(wr, got[0]) && (!q.Order || i == 0) {
					found = true
				}
			}
			if !found {
				r.dev("query.rows", c19, "query %s returned row %s which is not an expected row (expected %d rows)", q.Kind, got[0], len(want))
			}
		} else if len(want) > 0 && len(raw) == 0 {
			r.dev("query.rows", c19, "query %s returned no row, %d expected", q.Kind, len(want))
		}
		return
	}
	if !q.Order {
		sort.SliceStable(got, func(i, j int) bool { return got[i].ID < got[j].ID })
	}
	if len(got) != len(want) {
		r.dev("query.rows", c19, "query %s over %s returned %d rows %v, expected %d %v", q.Kind, w.Cfg.Colls[op.C], len(got), got, len(want), want)
		return
	}
	for i := range want {
		if !sameQRow(got[i], want[i]) {
			r.dev("query.rows", c19, "query %s over %s row %d: got %s, expected %s", q.Kind, w.Cfg.Colls[op.C], i, got[i], want[i])
		}
	}
}

// countHarnessDocs: live documents written by the harness itself (sentinels), which COUNT(*) sees.
func (r *Run) countHarnessDocs(ci int) int {
	rows, err := runQuery(r.W.Coll(0, ci), QueryOp{Kind: "like", Str: sentinelPrefix + "%", Iter: "bytes"})
	if err != nil {
		return 0
	}
	return len(rows)
}

func genQuery(rt *rapid.T, r *Run) (Op, bool) {
	w := r.W
	op := Op{K: "Query", C: pickColl(rt, w, "q.coll")}
	if len(w.Handles) > 1 {
		op.H = rapid.IntRange(0, len(w.Handles)-1).Draw(rt, "q.h")
	}
	q := &QueryOp{Kind: pick(rt, []string{"all", "all", "byid", "like", "in", "count", "type", "ngt", "xseq", "proj", "proj", "noxattrs", "rawbody"}, "q.kind")}
	switch q.Kind {
	case "byid":
		q.Str = pick(rt, append([]string{"zz"}, w.Model.Keys(op.C)...), "q.id")
	case "like":
		q.Str = pick(rt, []string{"a%", "%", "k%", "b", "c%", "q%", "L%"}, "q.pat")
	case "in":
		n := rapid.IntRange(1, 3).Draw(rt, "q.nin")
		for i := 0; i < n; i++ {
			q.IDs = append(q.IDs, pick(rt, append([]string{"zz", "a"}, w.Model.Keys(op.C)...), "q.inid"))
		}
	case "proj":
		q.Lead = rapid.IntRange(0, 2).Draw(rt, "q.lead")
	case "type":
		q.Str = pick(rt, []string{"t1", "t2", "x"}, "q.type")
	case "ngt":
		q.Num = float64(rapid.IntRange(-6, 20).Draw(rt, "q.n"))
	case "xseq":
		q.Num = float64(rapid.IntRange(0, 9).Draw(rt, "q.seq"))
	}
	q.Order = chance(rt, 50, "q.order")
	q.Iter = pick(rt, []string{"bytes", "bytes", "next", "one", "early", "hold"}, "q.iter")
	if q.Kind == "count" {
		q.Iter = pick(rt, []string{"bytes", "next"}, "q.citer")
	}
	op.Query = q
	return op, true
}
