package h

// World: one rosmar bucket (memory or disk) opened through 1..3 handles, with 1..3
// collections, plus the observers that read every key back through the public API.

import (
	"bytes"
	"context"
	"encoding/json"
	"errors"
	"fmt"
	"hash/crc32"
	"os"
	"path/filepath"
	"sort"
	"strconv"
	"sync"
	"sync/atomic"
	"time"

	sgbucket "github.com/couchbase/sg-bucket"
	"github.com/couchbaselabs/rosmar"
)

var ctx = context.Background()

// Config of a world; JSON-serialisable (part of a replay file).
type Config struct {
	Disk       bool      `json:"disk"`
	Handles    int       `json:"handles"`
	Colls      []string  `json:"colls"` // "scope.collection"; index 0 is always _default._default
	MaxDocSize int       `json:"maxDocSize,omitempty"`
	Keys       []string  `json:"keys,omitempty"` // document keys of this world (default: the profile's)
	Feeds      []FeedCfg `json:"feeds,omitempty"`
	Late       int       `json:"late,omitempty"` // the last Late entries of Colls do not exist at the start (created later by CreateColl)
}

// FeedCfg describes a live feed started when the world is created.
type FeedCfg struct {
	H         int  `json:"h"` // handle that starts it
	C         int  `json:"c"` // collection index (ignored when Multi)
	KeysOnly  bool `json:"keysOnly,omitempty"`
	Multi     bool `json:"multi,omitempty"`     // started through Bucket.StartDCPFeed with all collections in Scopes
	NoDefault bool `json:"noDefault,omitempty"` // Multi: only the named collections, not the default one
}

var worldSerial int64

var defaultMaxDocSize = rosmar.MaxDocSize
var maxDocMu sync.Mutex

// ("s1.C1" and "s1.c1" differ only in letter case: they are different collections)
var allCollNames = []string{"_default._default", "s1.c1", "s1.C1", "s1.c2", "s2.c1"}

func dsName(s string) sgbucket.DataStoreNameImpl {
	for i := 0; i < len(s); i++ {
		if s[i] == '.' {
			return sgbucket.DataStoreNameImpl{Scope: s[:i], Collection: s[i+1:]}
		}
	}
	panic("bad collection name " + s)
}

type World struct {
	Cfg         Config
	Name        string
	Dir         string // "" for memory
	URL         string
	Handles     []*rosmar.Bucket
	colls       [][]sgbucket.DataStore // [handle][coll], lazily filled
	collMu      sync.Mutex
	Model       *Model
	Feeds       []*Collector
	savedMaxDoc int
	closed      bool
	external    bool // directory owned by the caller
}

// shardTag keeps bucket names of concurrently running shard processes apart (names are
// process-local in rosmar, but directories are not).
var shardTag = func() string {
	if s := os.Getenv("VERIF_SHARD"); s != "" {
		return s
	}
	return "0"
}()

func tmpRoot() string {
	if d := os.Getenv("VERIF_TMP"); d != "" {
		return d
	}
	return os.TempDir()
}

func NewWorld(cfg Config) (*World, error) { return NewWorldAt(cfg, "", "", false) }

// NewWorldAt creates a world in a given directory (on-disk worlds of child processes), or, with
// existing=true, attaches to a bucket that is already there (the parent after a crash). The
// directory is then owned by the caller: Close() closes the handles without deleting anything.
func NewWorldAt(cfg Config, dir, name string, existing bool) (*World, error) {
	n := atomic.AddInt64(&worldSerial, 1)
	w := &World{Cfg: cfg, Name: fmt.Sprintf("vb%s_%d_%d", shardTag, os.Getpid(), n)}
	if name != "" {
		w.Name = name
	}
	w.external = dir != ""
	if cfg.Handles < 1 {
		cfg.Handles = 1
		w.Cfg.Handles = 1
	}
	if len(cfg.Colls) == 0 {
		w.Cfg.Colls = []string{allCollNames[0]}
	}
	// (worlds of concurrent scenarios all use the default: the process-global limit is only written
	// when it really changes, under a lock)
	maxDocMu.Lock()
	w.savedMaxDoc = rosmar.MaxDocSize
	want := defaultMaxDocSize // (a world that is still open may have lowered it)
	if cfg.MaxDocSize > 0 {
		want = cfg.MaxDocSize
	}
	if rosmar.MaxDocSize != want {
		rosmar.MaxDocSize = want
	}
	maxDocMu.Unlock()
	if cfg.Disk {
		if dir == "" {
			var err error
			dir, err = os.MkdirTemp(tmpRoot(), "vw")
			if err != nil {
				return nil, err
			}
		}
		w.Dir = dir
		w.URL = "rosmar://" + filepath.Join(dir, "b")
	} else {
		w.URL = rosmar.InMemoryURL
	}
	mode := rosmar.OpenMode(rosmar.CreateNew)
	if existing {
		mode = rosmar.ReOpenExisting
	}
	if err := w.openHandles(mode); err != nil {
		w.Close()
		return nil, err
	}
	// create the named collections through handle 0
	for i, cn := range w.Cfg.Colls[1:] {
		if existing || i+1 >= len(w.Cfg.Colls)-w.Cfg.Late {
			break
		}
		if err := w.Handles[0].CreateDataStore(ctx, dsName(cn)); err != nil {
			w.Close()
			return nil, fmt.Errorf("CreateDataStore %s: %w", cn, err)
		}
	}
	w.Model = NewModel(len(w.Cfg.Colls))
	for i := len(w.Cfg.Colls) - w.Cfg.Late; i < len(w.Cfg.Colls); i++ {
		if i > 0 {
			w.Model.Colls[i].Dropped = true
		}
	}
	for _, fc := range w.Cfg.Feeds {
		c, err := w.StartLiveFeed(fc)
		if err != nil {
			w.Close()
			return nil, err
		}
		w.Feeds = append(w.Feeds, c)
	}
	return w, nil
}

func (w *World) openHandles(firstMode rosmar.OpenMode) error {
	w.Handles = nil
	w.colls = nil
	for i := 0; i < w.Cfg.Handles; i++ {
		mode := rosmar.OpenMode(rosmar.CreateOrOpen)
		if i == 0 {
			mode = firstMode
		}
		b, err := rosmar.OpenBucket(w.URL, w.Name, mode)
		if err != nil {
			return fmt.Errorf("OpenBucket handle %d: %w", i, err)
		}
		w.Handles = append(w.Handles, b)
		w.colls = append(w.colls, make([]sgbucket.DataStore, len(w.Cfg.Colls)))
	}
	return nil
}

// Reopen closes every handle and opens them again (on-disk worlds only).
func (w *World) Reopen() error { return w.ReopenAfter(0) }

// ReopenAfter closes every handle, leaves the bucket closed for the given time, and opens it again.
func (w *World) ReopenAfter(closedFor time.Duration) error {
	if !w.Cfg.Disk {
		return errors.New("reopen on memory world")
	}
	for _, f := range w.Feeds {
		f.StopAndWait()
	}
	for _, b := range w.Handles {
		b.Close(ctx)
	}
	time.Sleep(closedFor)
	if err := w.openHandles(rosmar.ReOpenExisting); err != nil {
		return err
	}
	// live feeds do not survive the store being shut down; restart them (no backfill).
	old := w.Feeds
	w.Feeds = nil
	for _, f := range old {
		f.final = true
		c, err := w.StartLiveFeed(f.Cfg)
		if err != nil {
			return err
		}
		c.prev = f
		w.Feeds = append(w.Feeds, c)
	}
	return nil
}

func (w *World) Close() {
	if w.closed {
		return
	}
	w.closed = true
	for _, f := range w.Feeds {
		f.Stop()
	}
	if w.external {
		for _, b := range w.Handles {
			b.Close(ctx)
		}
	} else {
		if len(w.Handles) > 0 {
			_ = w.Handles[0].CloseAndDelete(ctx)
		}
		if w.Dir != "" {
			_ = os.RemoveAll(w.Dir)
		}
	}
	maxDocMu.Lock()
	if rosmar.MaxDocSize != w.savedMaxDoc {
		rosmar.MaxDocSize = w.savedMaxDoc
	}
	maxDocMu.Unlock()
}

// Coll returns collection c as seen through handle h.
func (w *World) Coll(h, c int) sgbucket.DataStore {
	// (called by concurrent workers: the cache is a slice of interface values, and an unsynchronised
	// reader can see a half-written one - a typed nil)
	w.collMu.Lock()
	defer w.collMu.Unlock()
	if ds := w.colls[h][c]; ds != nil {
		return ds
	}
	var ds sgbucket.DataStore
	var err error
	if c == 0 {
		ds = w.Handles[h].DefaultDataStore()
		if ds == nil {
			err = errors.New("DefaultDataStore returned nil")
		}
	} else {
		ds, err = w.Handles[h].NamedDataStore(dsName(w.Cfg.Colls[c]))
	}
	if err != nil {
		panic(fmt.Sprintf("cannot get collection %s on handle %d: %v", w.Cfg.Colls[c], h, err))
	}
	w.colls[h][c] = ds
	return ds
}

func (w *World) RColl(h, c int) *rosmar.Collection { return w.Coll(h, c).(*rosmar.Collection) }

// ---------------------------------------------------------------------------------------------
// Observation of one key through every read API.

// St is the state of one key as the model knows it (== last validated observation).
type St struct {
	Present bool              `json:"present"`     // a row exists ($document readable)
	Body    []byte            `json:"body"`        // nil = no body (tombstone) when Present
	X       map[string]string `json:"x,omitempty"` // xattr name -> raw JSON as read back
	Cas     uint64            `json:"cas"`
	Exp     uint32            `json:"exp"`
	Rev     uint64            `json:"rev"`
}

func (s St) HasBody() bool { return s.Present && s.Body != nil }
func (s St) Tomb() bool    { return s.Present && s.Body == nil }

func (s St) Class() string {
	switch {
	case !s.Present:
		return "absent"
	case s.Body == nil && len(s.X) == 0:
		return "tomb"
	case s.Body == nil:
		return "tombX"
	case len(s.X) == 0:
		return "live"
	default:
		return "liveX"
	}
}

func (s St) Equal(o St) bool {
	if s.Present != o.Present {
		return false
	}
	if !s.Present {
		return true
	}
	if (s.Body == nil) != (o.Body == nil) || !bytes.Equal(s.Body, o.Body) {
		return false
	}
	if s.Cas != o.Cas || s.Exp != o.Exp || s.Rev != o.Rev || len(s.X) != len(o.X) {
		return false
	}
	for k, v := range s.X {
		if ov, ok := o.X[k]; !ok || ov != v {
			return false
		}
	}
	return true
}

func (s St) String() string {
	if !s.Present {
		return "<absent>"
	}
	b := "<nil>"
	if s.Body != nil {
		b = strconv.Quote(string(s.Body))
	}
	names := make([]string, 0, len(s.X))
	for k := range s.X {
		names = append(names, k)
	}
	sort.Strings(names)
	xs := ""
	for _, k := range names {
		xs += k + "=" + s.X[k] + " "
	}
	return fmt.Sprintf("{body=%s x=[%s] cas=%#x exp=%d rev=%d}", b, xs, s.Cas, s.Exp, s.Rev)
}

var castagnoli = crc32.MakeTable(crc32.Castagnoli)

func crcOf(b []byte) string { return fmt.Sprintf("0x%08x", crc32.Checksum(b, castagnoli)) }

// Deviation is one oracle clause that did not hold.
type Deviation struct {
	Clause string   `json:"clause"`
	Props  []string `json:"props"`
	Step   int      `json:"step"`
	Msg    string   `json:"msg"`
	Sig    string   `json:"sig,omitempty"` // signature used to match known findings
}

func (d Deviation) Has(prop string) bool {
	for _, p := range d.Props {
		if p == prop {
			return true
		}
	}
	return false
}

func errClass(err error) string {
	if err == nil {
		return ""
	}
	var me sgbucket.MissingError
	var ce sgbucket.CasMismatchErr
	var xe sgbucket.XattrMissingError
	var te sgbucket.DocTooBigErr
	var ue *rosmar.ErrUnimplemented
	switch {
	case errors.As(err, &me):
		return "missing"
	case errors.As(err, &ce):
		return "cas"
	case errors.As(err, &xe):
		return "xattrmissing"
	case errors.As(err, &te):
		return "toobig"
	case errors.Is(err, sgbucket.ErrKeyExists):
		return "exists"
	case errors.Is(err, sgbucket.ErrPathNotFound):
		return "pathnotfound"
	case errors.Is(err, sgbucket.ErrPathExists):
		return "pathexists"
	case errors.Is(err, sgbucket.ErrPathMismatch):
		return "pathmismatch"
	case errors.Is(err, rosmar.ErrBucketClosed):
		return "closed"
	case errors.As(err, &ue):
		return "unimplemented"
	case errors.Is(err, sgbucket.ErrNeedXattrs), errors.Is(err, sgbucket.ErrNeedBody),
		errors.Is(err, sgbucket.ErrNilXattrValue), errors.Is(err, sgbucket.ErrUpsertAndDeleteSameXattr),
		errors.Is(err, sgbucket.ErrDeleteXattrOnDocumentInsert), errors.Is(err, sgbucket.ErrDeleteXattrOnTombstone):
		return "badarg"
	}
	return "other"
}

// Observe reads one key through every read entry point of collection ds and returns the
// canonical state plus the coherence deviations between observers (clauses "coherent.*").
// xnames: every xattr name ever used on the key.
func Observe(ds sgbucket.DataStore, key string, xnames []string) (St, []Deviation) {
	var devs []Deviation
	bad := func(clause string, props []string, f string, a ...any) {
		devs = append(devs, Deviation{Clause: clause, Props: props, Msg: fmt.Sprintf("key %q: ", key) + fmt.Sprintf(f, a...)})
	}
	c0105 := []string{"C01", "C05"}
	var st St

	// 1. virtual xattrs: row existence and revision number
	vx, vcas, verr := ds.GetXattrs(ctx, key, []string{"$document", "$document.revid"})
	switch errClass(verr) {
	case "":
		st.Present = true
		var doc struct {
			Crc   string `json:"value_crc32c"`
			RevID string `json:"revid"`
		}
		if err := json.Unmarshal(vx["$document"], &doc); err != nil {
			bad("coherent.document.json", []string{"C17"}, "$document unparseable: %s", vx["$document"])
		}
		var revid string
		if err := json.Unmarshal(vx["$document.revid"], &revid); err != nil {
			bad("coherent.revid.json", []string{"C17"}, "$document.revid unparseable: %s", vx["$document.revid"])
		}
		if revid != doc.RevID {
			bad("coherent.revid", []string{"C17"}, "$document.revid=%s but $document says %s", revid, doc.RevID)
		}
		st.Rev, _ = strconv.ParseUint(doc.RevID, 10, 64)
		st.Cas = vcas
		defer func(crc string) {
			if st.Present && crc != crcOf(st.Body) {
				bad("coherent.crc", []string{"C07", "C01"}, "$document.value_crc32c=%s but body %q has %s", crc, st.Body, crcOf(st.Body))
			}
		}(doc.Crc)
	case "missing":
	default:
		bad("coherent.read.err", c0105, "GetXattrs($document) failed: %v", verr)
	}

	// 2. GetWithXattrs: body + all xattrs
	body, xs, cas, err := ds.GetWithXattrs(ctx, key, xnames)
	switch errClass(err) {
	case "":
		if !st.Present {
			bad("coherent.row", c0105, "GetWithXattrs succeeded but $document says no row")
		}
		st.Body = body
		if cas != st.Cas {
			bad("coherent.cas", []string{"C01"}, "GetWithXattrs cas %#x != GetXattrs cas %#x", cas, st.Cas)
		}
		if len(xs) > 0 {
			st.X = make(map[string]string, len(xs))
			for k, v := range xs {
				st.X[k] = string(v)
			}
		}
		if body == nil && len(xs) == 0 {
			bad("coherent.gwx", c0105, "GetWithXattrs returned success with neither body nor xattrs")
		}
	case "missing":
		// absent, or tombstone without any of the named xattrs
	default:
		bad("coherent.read.err", c0105, "GetWithXattrs failed: %v", err)
	}

	// 3. GetXattrs with the real names must agree with GetWithXattrs
	if len(xnames) > 0 {
		gx, gcas, gerr := ds.GetXattrs(ctx, key, xnames)
		switch errClass(gerr) {
		case "":
			if len(gx) != len(st.X) {
				bad("coherent.xattrs", []string{"C07"}, "GetXattrs returned %d xattrs, GetWithXattrs %d", len(gx), len(st.X))
			}
			for k, v := range gx {
				if st.X[k] != string(v) {
					bad("coherent.xattrs", []string{"C07"}, "xattr %s: GetXattrs=%s GetWithXattrs=%s", k, v, st.X[k])
				}
			}
			if gcas != st.Cas {
				bad("coherent.cas", []string{"C01"}, "GetXattrs cas %#x != %#x", gcas, st.Cas)
			}
		case "xattrmissing":
			if len(st.X) != 0 {
				bad("coherent.xattrs", []string{"C07"}, "GetXattrs says none but GetWithXattrs has %v", st.X)
			}
			if !st.Present {
				bad("coherent.row", c0105, "GetXattrs says xattr-missing (row exists) but $document says no row")
			}
		case "missing":
			if st.Present {
				bad("coherent.row", c0105, "GetXattrs says missing but $document readable")
			}
		default:
			bad("coherent.read.err", c0105, "GetXattrs failed: %v", gerr)
		}
	}

	// 4. GetRaw / Get / Exists
	raw, rcas, rerr := ds.GetRaw(key)
	switch errClass(rerr) {
	case "":
		if st.Body == nil || !bytes.Equal(raw, st.Body) {
			bad("coherent.body", c0105, "GetRaw=%q but GetWithXattrs body=%q (nil=%v)", raw, st.Body, st.Body == nil)
		}
		if raw == nil {
			bad("coherent.body", c0105, "GetRaw succeeded with nil body")
		}
		if rcas != st.Cas {
			bad("coherent.cas", []string{"C01"}, "GetRaw cas %#x != %#x", rcas, st.Cas)
		}
	case "missing":
		if st.Body != nil {
			bad("coherent.body", c0105, "GetRaw says missing but GetWithXattrs has body %q", st.Body)
		}
	default:
		bad("coherent.read.err", c0105, "GetRaw failed: %v", rerr)
	}
	var gb []byte
	gcas, gerr := ds.Get(key, &gb)
	switch errClass(gerr) {
	case "":
		if st.Body == nil || !bytes.Equal(gb, st.Body) {
			bad("coherent.body", c0105, "Get=%q but body=%q", gb, st.Body)
		}
		if gcas != st.Cas {
			bad("coherent.cas", []string{"C01"}, "Get cas %#x != %#x", gcas, st.Cas)
		}
	case "missing":
		if st.Body != nil {
			bad("coherent.body", c0105, "Get says missing but body present")
		}
	default:
		bad("coherent.read.err", c0105, "Get failed: %v", gerr)
	}
	ex, eerr := ds.Exists(key)
	if eerr != nil {
		bad("coherent.read.err", c0105, "Exists failed: %v", eerr)
	} else if ex != (st.Body != nil) {
		bad("coherent.exists", c0105, "Exists=%v but body present=%v", ex, st.Body != nil)
	}

	// 5. expiry
	exp, xerr := ds.GetExpiry(ctx, key)
	switch errClass(xerr) {
	case "":
		st.Exp = exp
		if !st.Present {
			bad("coherent.row", c0105, "GetExpiry succeeded but $document says no row")
		}
	case "missing":
		if st.Present {
			bad("coherent.row", c0105, "GetExpiry says missing but row exists")
		}
	default:
		bad("coherent.read.err", c0105, "GetExpiry failed: %v", xerr)
	}
	if !st.Present {
		st = St{}
	}
	return st, devs
}
