package h

// Native (coverage-guided) fuzz targets, run by the thorough tier only. Each decodes the bytes into
// structured arguments and carries its own oracle (round trip / differential against a reference).

import (
	"bytes"
	"encoding/json"
	"fmt"
	"strings"
	"sync"
	"testing"
	"unicode/utf8"

	sgbucket "github.com/couchbase/sg-bucket"
	"github.com/couchbaselabs/rosmar"
)

var fuzzWorldOnce sync.Once
var fuzzWorld *World
var fuzzSerial int

func fuzzDS(t testing.TB) sgbucket.DataStore {
	fuzzWorldOnce.Do(func() {
		w, err := NewWorld(Config{Handles: 1, Colls: allCollNames[:1]})
		if err != nil {
			t.Fatalf("cannot create world: %v", err)
		}
		fuzzWorld = w
	})
	// keep the bucket small: purge now and then
	fuzzSerial++
	if fuzzSerial%200 == 0 {
		_, _ = fuzzWorld.Handles[0].PurgeTombstones()
	}
	return fuzzWorld.Coll(0, 0)
}

func validKey(k string) bool {
	return k != "" && len(k) <= 200 && utf8.ValidString(k) && !strings.ContainsRune(k, 0)
}

// FuzzC01Body: a body written through every raw / JSON write path reads back byte for byte (or, for
// the marshalling paths, as the JSON encoding of the same value), with the CAS the write returned.
func FuzzC01Body(f *testing.F) {
	for _, s := range []string{`{}`, `{"a":1}`, `""`, "\x00\x01", "\xff\xfe", `{not json}`, `{"a":1} x`, ``, `[1,2]`, `7`} {
		f.Add("k", []byte(s), byte(0))
		f.Add("k%_'", []byte(s), byte(3))
	}
	f.Fuzz(func(t *testing.T, key string, body []byte, path byte) {
		if !validKey(key) || strings.HasPrefix(key, sentinelPrefix) || body == nil {
			t.Skip()
		}
		if len(body) > 4096 {
			t.Skip()
		}
		ds := fuzzDS(t)
		key = fmt.Sprintf("f%d:", fuzzSerial%50) + key
		var err error
		var cas uint64
		want := body
		switch path % 6 {
		case 0:
			err = ds.SetRaw(key, 0, nil, body)
		case 1:
			_ = ds.Delete(key)
			var added bool
			added, err = ds.AddRaw(key, 0, body)
			if err == nil && !added {
				t.Fatalf("AddRaw on a deleted/absent key was refused")
			}
		case 2:
			cas, err = ds.WriteCas(key, 0, 0, body, sgbucket.Raw)
			if err != nil { // exists: replace with the current CAS
				_, cur, e2 := ds.GetRaw(key)
				if e2 != nil {
					t.Fatalf("WriteCas(0) failed (%v) but the key is not readable: %v", err, e2)
				}
				cas, err = ds.WriteCas(key, 0, cur, body, sgbucket.Raw)
			}
		case 3:
			if !json.Valid(body) {
				t.Skip()
			}
			err = ds.Set(key, 0, nil, body) // []byte: stored as is
		case 4:
			var v any
			if json.Unmarshal(body, &v) != nil || v == nil {
				t.Skip()
			}
			err = ds.Set(key, 0, nil, v)
			want, _ = json.Marshal(v)
		case 5:
			_ = ds.SetRaw(key, 0, nil, []byte("head:"))
			_, cur, _ := ds.GetRaw(key)
			cas, err = ds.WriteCas(key, 0, cur, body, sgbucket.Append)
			want = append([]byte("head:"), body...)
		}
		if err != nil {
			t.Fatalf("write path %d failed: %v", path%6, err)
		}
		got, gcas, err := ds.GetRaw(key)
		if err != nil {
			t.Fatalf("read after write path %d failed: %v", path%6, err)
		}
		if !bytes.Equal(got, want) {
			t.Fatalf("write path %d: wrote %q, read %q", path%6, want, got)
		}
		if cas != 0 && cas != gcas {
			t.Fatalf("write path %d returned CAS %#x, the document has %#x", path%6, cas, gcas)
		}
		st, devs := Observe(ds, key, nil)
		if len(devs) > 0 {
			t.Fatalf("observers disagree after write path %d: %v (state %s)", path%6, devs[0].Msg, st)
		}
	})
}

// FuzzC07Xattr: an xattr value round-trips as the same JSON value, and writing it leaves the body
// and a neighbouring xattr byte-identical; macro expansion at a generated path resolves to the new
// CAS / the CRC32c of the body.
func FuzzC07Xattr(f *testing.F) {
	for _, s := range []string{`{}`, `{"a":1}`, `"s"`, `[1,{"b":null}]`, `1.5`, `{"n":{"c":""}}`, `{"a":"<&>"}`, `true`, `null`, `{"cas":"x","crc":"y"}`} {
		f.Add([]byte(s), "n.c", byte(0))
		f.Add([]byte(s), "cas", byte(1))
	}
	f.Fuzz(func(t *testing.T, val []byte, mpath string, mode byte) {
		if len(val) > 2048 || len(mpath) > 64 {
			t.Skip()
		}
		ds := fuzzDS(t)
		key := fmt.Sprintf("x%d", fuzzSerial%50)
		body := []byte(`{"body":true}`)
		neighbour := []byte(`{"keep":[1,2,3],"s":"<&>"}`)
		if _, err := ds.WriteWithXattrs(ctx, key, 0, 0, body, map[string][]byte{"_keep": neighbour}, nil, nil); err != nil {
			_ = ds.Delete(key)
			_, _ = ds.WriteResurrectionWithXattrs(ctx, key, 0, body, map[string][]byte{"_keep": neighbour}, nil)
		}
		before, _, err := ds.GetXattrs(ctx, key, []string{"_keep"})
		if err != nil {
			t.Fatalf("setup: %v", err)
		}
		_, cur, _ := ds.GetRaw(key)
		var opts *sgbucket.MutateInOptions
		useMacro := mode%2 == 1 && mpath != "" && !strings.ContainsAny(mpath, "[]\\`")
		if useMacro {
			opts = &sgbucket.MutateInOptions{MacroExpansion: []sgbucket.MacroExpansionSpec{
				sgbucket.NewMacroExpansionSpec("_fz."+mpath, sgbucket.MacroExpansionType(int(mode/2)%2))}}
		}
		cas, err := ds.UpdateXattrs(ctx, key, 0, cur, map[string][]byte{"_fz": val}, opts)
		after, _, aerr := ds.GetXattrs(ctx, key, []string{"_keep", "_fz"})
		gotBody, gcas, _ := ds.GetRaw(key)
		if !bytes.Equal(gotBody, body) {
			t.Fatalf("xattr write changed the body: %q", gotBody)
		}
		if aerr != nil || !bytes.Equal(after["_keep"], before["_keep"]) {
			t.Fatalf("xattr write changed a neighbouring xattr: before %s after %s (err %v)", before["_keep"], after["_keep"], aerr)
		}
		if !json.Valid(val) {
			if err == nil {
				t.Fatalf("invalid JSON %q was accepted as an xattr value", val)
			}
			if gcas != cur {
				t.Fatalf("a refused xattr write changed the CAS")
			}
			return
		}
		var parsed any
		representable := json.Unmarshal(val, &parsed) == nil // (a number beyond float64 is valid JSON that Go cannot hold)
		if err != nil {
			// valid JSON may still be refused with macros (value not an object / parent missing) or
			// because a number in it does not fit a float64; nothing may change then
			if !useMacro && representable {
				t.Fatalf("valid JSON xattr value %q refused: %v", val, err)
			}
			if gcas != cur || after["_fz"] != nil {
				t.Fatalf("a refused xattr write left traces: cas %#x -> %#x, _fz=%s", cur, gcas, after["_fz"])
			}
			return
		}
		if cas != gcas {
			t.Fatalf("UpdateXattrs returned CAS %#x, document has %#x", cas, gcas)
		}
		if !representable {
			return // accepted although Go cannot parse it: what is read back is not pinned
		}
		want := string(val)
		if useMacro {
			exp := sgbucket.MacroExpansionType(int(mode/2) % 2)
			if w2, ok := applyMacros("_fz", string(val), []MacroSpec{{Path: "_fz." + mpath, Type: int(exp)}}, cas, body); ok {
				want = w2
			} else {
				t.Fatalf("macro expansion at %q into %q cannot work, yet the call succeeded with %s", mpath, val, after["_fz"])
			}
		}
		if !jsonEqual(after["_fz"], []byte(want)) {
			t.Fatalf("xattr value: wrote %s (expected after expansion %s), read %s", val, want, after["_fz"])
		}
	})
}

// FuzzC18Path: WriteSubDoc / GetSubDocRaw against the parse-edit-marshal reference.
func FuzzC18Path(f *testing.F) {
	for _, d := range []string{`{}`, `{"a":1}`, `{"a":{"b":{"c":2}},"x":[1]}`, `{"a":null}`, `[1]`, `7`, `{"a.b":1}`} {
		for _, p := range []string{"a", "a.b", "a.b.c", "x.y", "", "a..b", "a[0]"} {
			f.Add([]byte(d), p, []byte(`"v"`))
			f.Add([]byte(d), p, []byte(``))
		}
	}
	f.Fuzz(func(t *testing.T, doc []byte, path string, val []byte) {
		if len(doc) > 2048 || len(path) > 64 || len(val) > 512 || !json.Valid(doc) || !utf8.ValidString(path) || !utf8.Valid(doc) || !utf8.Valid(val) {
			t.Skip() // (a JSON document cannot carry a property name that is not UTF-8)
		}
		if len(val) > 0 && !json.Valid(val) {
			t.Skip()
		}
		var probe any
		if json.Unmarshal(doc, &probe) != nil || (len(val) > 0 && json.Unmarshal(val, &probe) != nil) {
			t.Skip() // valid JSON that Go cannot hold (a number beyond float64): outside the reference editor's domain
		}
		ds := fuzzDS(t)
		key := fmt.Sprintf("s%d", fuzzSerial%50)
		if err := ds.Set(key, 0, nil, doc); err != nil {
			t.Fatalf("setup: %v", err)
		}
		before, _ := Observe(ds, key, nil)
		op := Op{K: "WriteSubDoc", Key: key, Path: path, Body: val, Cas: CasSpec{Kind: "zero"}}
		if len(val) == 0 {
			op.Body = nil
		}
		alts := expectSubdoc(op, before, Result{CasClass: "zero"}, "zero")
		cas, err := ds.WriteSubDoc(ctx, key, path, 0, val)
		after, devs := Observe(ds, key, nil)
		if len(devs) > 0 {
			t.Fatalf("observers disagree: %s", devs[0].Msg)
		}
		res := Result{Err: errClass(err), Cas: cas, CasClass: "zero"}
		if err != nil {
			res.ErrMsg = err.Error()
		}
		m := NewModel(1)
		m.MaxIssued = before.Cas
		ok := false
		var why []string
		for _, a := range alts {
			fails := evalAlt(a, op, before, res, after, m)
			if len(fails) == 0 {
				ok = true
				break
			}
			for _, fl := range fails {
				why = append(why, a.Name+": "+fl.clause+": "+fl.msg)
			}
		}
		if !ok {
			t.Fatalf("WriteSubDoc(%q, %q, %q) on %q: no acceptable outcome: %v", key, path, val, doc, why)
		}
		// reading the property back
		if err == nil && len(val) > 0 && subdocPathOK(path) {
			got, _, gerr := ds.GetSubDocRaw(ctx, key, path)
			var v any
			_ = json.Unmarshal(val, &v)
			if v != nil && (gerr != nil || !jsonEqual(got, val)) {
				t.Fatalf("GetSubDocRaw(%q) after writing %s returned %s (err %v)", path, val, got, gerr)
			}
		}
	})
}

var _ = rosmar.MaxDocSize
